#!/bin/bash
# tools_par_mutants.sh <logfile> <jobs> <mutant-id>:<ID>[,<ID>...] ...
# Like tools_run_mutants.sh, but every seeded change gets its own scratch copy (a git worktree of
# /repo with the change applied + a copy of /verif whose harness points at it), so several run
# at once and /repo itself is never touched. Scratch copies live under /tmp/mut and are removed
# as soon as their checks are done. With SAVE_CORPUS=1 the shrunk failing case of every CAUGHT
# is kept as /verif/corpus/<ID>/<mutant-id>.json.
LOG="$1"; JOBS="$2"; shift 2
one() {
  spec="$1"; m=${spec%%:*}; ids=${spec##*:}
  W=/tmp/mut/$m; rm -rf "$W"; mkdir -p "$W"
  git -C /repo worktree add -q --detach "$W/repo" HEAD 2>/dev/null || { echo "$m worktree-failed" >> "$LOG"; return; }
  if ! git -C "$W/repo" apply ${BASE:-/verif/seeded}/$m/patch.diff 2>/dev/null; then echo "$m patch-does-not-apply" >> "$LOG"; git -C /repo worktree remove --force "$W/repo"; rm -rf "$W"; return; fi
  # the committed state of /verif (not the working tree, which may be mid-edit), plus the
  # harness build output for a warm build
  mkdir -p "$W/verif"
  git -C /verif archive HEAD | tar -x -C "$W/verif" --exclude=seeded --exclude=benign
  rsync -a /verif/harness/target "$W/verif/harness/" 2>/dev/null
  sed -i "s#path = \"/repo\"#path = \"$W/repo\"#" "$W/verif/harness/Cargo.toml" "$W/verif/fuzz/Cargo.toml"
  for id in ${ids//,/ }; do
    OUT=$(cd "$W/verif" && VERIF_SEED=${VERIF_SEED:-5} ./check "$id" ${TIER:-quick} 2>&1); RC=$?
    KEY=$(echo "$OUT" | grep -A1 "^VIOLATION" | grep -m1 "key=" | sed 's/^ *//' | cut -c1-300)
    case $RC in
      0) echo "$m MISSED  $id  $(echo "$OUT" | tail -1 | cut -c1-160)" >> "$LOG";;
      1) echo "$m CAUGHT  $id  $KEY" >> "$LOG"
         if [ -n "${SAVE_CORPUS:-}" ]; then
           RP=$(echo "$OUT" | grep -m1 "^VIOLATION" | sed 's/.*replay=//')
           if [ -f "$RP" ] && [ "${RP##*.}" = json ]; then mkdir -p /verif/corpus/$id; cp "$RP" /verif/corpus/$id/$m.json; fi
         fi;;
      *) echo "$m INCONCLUSIVE($RC) $id $(echo "$OUT" | tail -2 | tr '\n' ' ' | cut -c1-300)" >> "$LOG";;
    esac
  done
  git -C /repo worktree remove --force "$W/repo" 2>/dev/null
  rm -rf "$W"
}
export -f one; export LOG
printf '%s\n' "$@" | xargs -P "$JOBS" -I{} bash -c 'one {}'
echo ALLDONE >> "$LOG"
