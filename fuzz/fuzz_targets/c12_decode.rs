//! Coverage-guided half of C12: arbitrary bytes -> WALRecord::decode must not panic, must
//! agree with the independent reference decoder (Ok / UnexpectedEof / invalid, record,
//! consumed length), and a decoded record must re-encode to exactly the consumed bytes.
#![no_main]
#![allow(dead_code)]

use libfuzzer_sys::fuzz_target;
use raft_log::codeq::Decode;
use raft_log::codeq::Encode;
use raft_log::WALRecord;

mod types {
    pub type LogId = (u64, u64);
    pub type Vote = (u64, u64);
    #[derive(Debug, Clone, Default, PartialEq, Eq)]
    pub struct VT;
    impl raft_log::Types for VT {
        type LogId = LogId;
        type LogPayload = String;
        type Vote = Vote;
        type Callback = std::sync::mpsc::SyncSender<Result<(), std::io::Error>>;
        type UserData = String;
        fn log_index(log_id: &Self::LogId) -> u64 {
            log_id.1
        }
        fn payload_size(payload: &Self::LogPayload) -> u64 {
            payload.len() as u64
        }
    }
}
#[path = "../../harness/src/model.rs"]
mod model;
#[path = "../../harness/src/refcodec.rs"]
mod refcodec;

use model::MState;
use model::Rec;
use types::VT;

fn to_rec(r: &WALRecord<VT>) -> Rec {
    match r {
        WALRecord::SaveVote(v) => Rec::Vote(*v),
        WALRecord::Append(id, p) => Rec::Append(*id, p.clone()),
        WALRecord::Commit(id) => Rec::Commit(*id),
        WALRecord::TruncateAfter(id) => Rec::TruncateAfter(*id),
        WALRecord::PurgeUpto(id) => Rec::PurgeUpto(*id),
        WALRecord::State(s) => Rec::State(MState { vote: s.vote().copied(), last: s.last().copied(), committed: s.committed().copied(), purged: s.purged().copied(), user_data: s.user_data.clone() }),
    }
}

struct Pieces<'a> {
    data: &'a [u8],
    pos: usize,
    piece: usize,
}

impl std::io::Read for Pieces<'_> {
    fn read(&mut self, out: &mut [u8]) -> std::io::Result<usize> {
        let n = out.len().min(self.piece).min(self.data.len() - self.pos);
        out[..n].copy_from_slice(&self.data[self.pos..self.pos + n]);
        self.pos += n;
        Ok(n)
    }
}

fuzz_target!(|data: &[u8]| {
    let mut rd: &[u8] = data;
    let got = WALRecord::<VT>::decode(&mut rd);
    let used = data.len() - rd.len();
    let want = refcodec::decode(data);
    match (&got, &want) {
        (Ok(rec), Ok((wrec, wn))) => {
            assert_eq!(&to_rec(rec), wrec, "store and reference decoder disagree on the record");
            assert_eq!(used, *wn, "store and reference decoder disagree on the consumed length");
            let mut out = vec![];
            let n = rec.encode(&mut out).expect("encode into a Vec");
            assert_eq!(n, out.len());
            assert_eq!(&out[..], &data[..used], "decoded record does not re-encode to the consumed bytes");
            // the same bytes delivered in pieces (piece size taken from the input) decode alike
            let piece = 1 + (data[data.len() - 1] as usize % 9);
            let mut pr = Pieces { data, pos: 0, piece };
            let again = WALRecord::<VT>::decode(&mut pr).expect("decoding the same bytes through a piecewise reader");
            assert_eq!(&to_rec(&again), wrec, "piecewise reader: different record");
            assert_eq!(pr.pos, used, "piecewise reader: different consumed length");
        }
        (Err(e), Err(we)) => {
            let eof = e.kind() == std::io::ErrorKind::UnexpectedEof;
            assert_eq!(eof, *we == refcodec::DecErr::Eof, "error kind differs: store {:?}, reference {:?}", e, we);
        }
        (Ok(rec), Err(we)) => panic!("store decodes {:?} where the reference decoder fails with {:?}", rec, we),
        (Err(e), Ok(w)) => panic!("store fails with {:?} where the reference decoder gives {:?}", e, w),
    }
});
