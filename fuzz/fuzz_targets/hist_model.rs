//! Coverage-guided half of C01/C02: bytes -> (configuration, history incl. clean restarts under
//! re-drawn limits) -> the real store and the reference model in lock-step; after every op
//! log_state() and read(0,MAX) must equal the model. Free-running worker, flushes are waited for.
#![no_main]
#![allow(dead_code)]

use std::collections::BTreeMap;
use std::sync::mpsc::sync_channel;
use std::sync::Arc;

use arbitrary::Unstructured;
use libfuzzer_sys::fuzz_target;
use raft_log::api::raft_log_writer::RaftLogWriter;
use raft_log::Config;
use raft_log::RaftLog;

mod types {
    pub type LogId = (u64, u64);
    pub type Vote = (u64, u64);
    #[derive(Debug, Clone, Default, PartialEq, Eq)]
    pub struct VT;
    impl raft_log::Types for VT {
        type LogId = LogId;
        type LogPayload = String;
        type Vote = Vote;
        type Callback = std::sync::mpsc::SyncSender<Result<(), std::io::Error>>;
        type UserData = String;
        fn log_index(log_id: &Self::LogId) -> u64 {
            log_id.1
        }
        fn payload_size(payload: &Self::LogPayload) -> u64 {
            payload.len() as u64
        }
    }
}
#[path = "../../harness/src/model.rs"]
mod model;

use model::MState;
use model::Model;
use types::VT;

fn pick_opt(u: &mut Unstructured, vals: &[Option<usize>]) -> Option<usize> {
    let i = u.int_in_range(0..=vals.len() - 1).unwrap_or(0);
    vals[i]
}

fn config(u: &mut Unstructured, dir: &str) -> (Config, bool) {
    let max_records = pick_opt(u, &[Some(0), Some(1), Some(2), Some(3), Some(4), Some(5), Some(8), Some(20), None]);
    let max_size = pick_opt(u, &[Some(0), Some(1), Some(60), Some(150), Some(400), None, None]);
    let read_buf = pick_opt(u, &[Some(0), Some(1), Some(7), Some(64), Some(4096)]);
    let items = pick_opt(u, &[None, None, Some(0), Some(1), Some(3), Some(10)]);
    let cap = pick_opt(u, &[None, None, Some(0), Some(8), Some(64)]);
    let limited = items.is_some() || cap.is_some();
    (
        Config { dir: dir.to_string(), log_cache_max_items: items, log_cache_capacity: cap, read_buffer_size: read_buf, chunk_max_records: max_records, chunk_max_size: max_size, truncate_incomplete_record: None },
        limited,
    )
}

fn observed(rl: &RaftLog<VT>) -> MState {
    let s = rl.log_state();
    MState { vote: s.vote().copied(), last: s.last().copied(), committed: s.committed().copied(), purged: s.purged().copied(), user_data: s.user_data.clone() }
}

fn check(rl: &RaftLog<VT>, m: &Model, what: &str) {
    assert_eq!(&observed(rl), m.st(), "log_state() differs from the reference model after {what}");
    let got: Vec<((u64, u64), String)> = rl.read(0, u64::MAX).map(|r| r.expect("read(0,MAX) must not fail")).collect();
    assert_eq!(got, m.cur.entries(), "read(0,MAX) differs from the reference model after {what}");
}

fn flush(rl: &mut RaftLog<VT>) {
    let (tx, rx) = sync_channel(1);
    rl.flush(Some(tx)).expect("flush");
    rx.recv().expect("flush callback").expect("flush result");
}

fuzz_target!(|data: &[u8]| {
    let mut u = Unstructured::new(data);
    let dir = format!("/dev/shm/rlv-fuzz-{}", std::process::id());
    let _ = std::fs::remove_dir_all(&dir);
    std::fs::create_dir_all(&dir).unwrap();
    // all configurations are drawn up front, so that "some run of this history uses a finite
    // cache" is known before the first append
    let ncfg = u.int_in_range(1usize..=4).unwrap_or(1);
    let mut cfgs: Vec<(Config, bool)> = (0..ncfg).map(|_| config(&mut u, &dir)).collect();
    let limited = cfgs.iter().any(|c| c.1);
    let (cfg, _) = cfgs.remove(0);
    let mut rl_cfg = cfg.clone();
    let mut rl = RaftLog::<VT>::open(Arc::new(cfg)).expect("open fresh dir");
    let mut m = Model::new();
    let mut max_id: Option<(u64, u64)> = None;
    let mut nops = 0;
    while !u.is_empty() && nops < 60 {
        nops += 1;
        let op = u.int_in_range(0u8..=11).unwrap_or(0);
        let what;
        match op {
            0 => {
                let cur = m.st().vote.unwrap_or((0, 0));
                let bump = u.int_in_range(0u64..=2).unwrap_or(0);
                let node = u.int_in_range(0u64..=3).unwrap_or(0);
                let v = if bump > 0 { (cur.0 + bump, node) } else { (cur.0, cur.1.max(node)) };
                m.save_vote(v).unwrap();
                rl.save_vote(v).expect("legal vote");
                what = format!("save_vote({v:?})");
            }
            1 | 2 | 3 => {
                let n = u.int_in_range(1u64..=5).unwrap_or(1);
                let bump = if u.ratio(1u8, 4u8).unwrap_or(false) { u.int_in_range(1u64..=3).unwrap_or(1) } else { 0 };
                let size = *u.choose(&[0usize, 1, 3, 8, 16, 100, 3000]).unwrap_or(&3);
                let (t0, i0) = match m.st().last {
                    Some((t, i)) => (t, i + 1),
                    None => (1, *u.choose(&[0u64, 1, 5, 1 << 40]).unwrap_or(&0)),
                };
                let mut t = t0 + bump;
                // known class (C07 finding): under a finite cache keep re-appended ids above every earlier id
                if limited {
                    if let Some(hi) = max_id {
                        if (t, i0) <= hi {
                            t = hi.0 + 1;
                        }
                    }
                }
                let mut ents = vec![];
                for k in 0..n {
                    let id = (t, i0 + k);
                    let mut p = format!("{}.{}|", id.0, id.1);
                    while p.len() < size {
                        p.push('x');
                    }
                    p.truncate(size);
                    m.append_one(id, p.clone()).unwrap();
                    if Some(id) > max_id {
                        max_id = Some(id);
                    }
                    ents.push((id, p));
                }
                rl.append(ents).expect("legal append");
                what = format!("append {n} from ({t},{i0})");
            }
            4 => {
                let lo = model::next_index(m.st().purged.as_ref());
                let mut cands = vec![lo];
                cands.extend(m.cur.log.keys().map(|k| k + 1).filter(|i| *i != lo));
                let idx = *u.choose(&cands).unwrap_or(&lo);
                m.truncate(idx).unwrap();
                rl.truncate(idx).expect("legal truncate");
                what = format!("truncate({idx})");
            }
            5 | 6 => {
                let live: Vec<(u64, u64)> = m.cur.log.values().map(|v| v.0).collect();
                let beyond = u.ratio(1u8, 5u8).unwrap_or(false);
                let upto = if beyond || live.is_empty() {
                    // beyond the last entry, or exactly at its index with a newer term
                    // (a snapshot of a newer leader that ends where the local log ends)
                    let same_index = u.ratio(1u8, 3u8).unwrap_or(false);
                    match m.st().last {
                        Some((t, i)) if same_index => (t + 1, i),
                        Some((t, i)) => (t, i + 1),
                        None => (1, 1),
                    }
                } else {
                    *u.choose(&live).unwrap()
                };
                if Some(upto) > max_id {
                    max_id = Some(upto);
                }
                m.purge(upto);
                rl.purge(upto).expect("legal purge");
                what = format!("purge({upto:?})");
            }
            7 => {
                let st = m.st().clone();
                let cands: Vec<(u64, u64)> = m.cur.log.values().map(|v| v.0).filter(|id| Some(*id) >= st.committed).collect();
                let id = if cands.is_empty() { st.committed.unwrap_or((0, 0)) } else { *u.choose(&cands).unwrap() };
                m.commit(id).unwrap();
                rl.commit(id).expect("legal commit");
                what = format!("commit({id:?})");
            }
            8 => {
                let ud = if u.ratio(1u8, 4u8).unwrap_or(false) { None } else { Some("u".repeat(u.int_in_range(0usize..=40).unwrap_or(1))) };
                m.save_user_data(ud.clone());
                rl.save_user_data(ud).expect("user data");
                what = "save_user_data".to_string();
            }
            9 => {
                flush(&mut rl);
                what = "flush".to_string();
            }
            10 => {
                let first = m.first_live().unwrap_or(0);
                let a = first + u.int_in_range(0u64..=8).unwrap_or(0);
                let b = a + u.int_in_range(0u64..=4).unwrap_or(0);
                let got: Vec<((u64, u64), String)> = rl.read(a, b).map(|r| r.expect("range read must not fail")).collect();
                assert_eq!(got, m.cur.range(a, b), "read({a},{b})");
                what = format!("read({a},{b})");
            }
            _ => {
                flush(&mut rl);
                rl.wait_worker_idle();
                drop(rl);
                let cfg = if cfgs.is_empty() { rl_cfg.clone() } else { cfgs.remove(0).0 };
                rl_cfg = cfg.clone();
                rl = RaftLog::<VT>::open(Arc::new(cfg)).expect("clean reopen");
                what = "reopen".to_string();
            }
        }
        check(&rl, &m, &what);
    }
    drop(rl);
    let _: BTreeMap<u8, u8> = BTreeMap::new();
});
