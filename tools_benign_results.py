#!/usr/bin/env python3
"""Writes /verif/benign/RESULTS.md from the logs of `BASE=/verif/benign tools_par_mutants.sh` runs
(later logs win): per behaviour-preserving variant, what each of the 16 quick checks said.
For these variants MISSED (= exit 0, no VIOLATION line) is the wanted outcome."""
import re, sys, os, collections
res = collections.defaultdict(dict)
for path in sys.argv[1:]:
    for l in open(path):
        m = re.match(r'(B\d+-v\d)\s+(CAUGHT|MISSED|INCONCLUSIVE\S*)\s+(C\d+)\s*(.*)', l)
        if m:
            res[m.group(1)][m.group(3)] = (m.group(2), m.group(4)[:200])
out = ["# Behaviour-preserving variants: what the quick checks said", "",
       "Each variant was applied to a scratch worktree of /repo; all sixteen quick checks ran against it",
       "(`BASE=/verif/benign tools_par_mutants.sh`, VERIF_SEED=5). `silent` = exit 0 and no VIOLATION line.", "",
       "| variant | what it changes (first line of its README) | silent | alarms | inconclusive |", "|---|---|---|---|---|"]
tot = [0, 0, 0]
def key(v):
    a, b = v.split('-v'); return (int(a[1:]), int(b))
for v in sorted(os.listdir('/verif/benign'), key=lambda x: key(x) if re.match(r'B\d+-v\d$', x) else (999, 0)):
    d = f'/verif/benign/{v}'
    if not os.path.isdir(d):
        continue
    title = ''
    for l in open(f'{d}/README.md'):
        l = l.strip().lstrip('#').strip()
        if l:
            title = l[:160]; break
    r = res.get(v, {})
    silent = sorted(k for k, x in r.items() if x[0] == 'MISSED')
    alarms = sorted(f"{k} ({x[1][:80]})" for k, x in r.items() if x[0] == 'CAUGHT')
    inc = sorted(k for k, x in r.items() if x[0].startswith('INCONCL'))
    tot[0] += len(silent); tot[1] += len(alarms); tot[2] += len(inc)
    out.append(f"| {v} | {title} | {len(silent)}/16 | {'; '.join(alarms) or '-'} | {', '.join(inc) or '-'} |")
out += ["", f"Totals: {tot[0]} silent runs, {tot[1]} alarms, {tot[2]} inconclusive."]
open('/verif/benign/RESULTS.md', 'w').write('\n'.join(out) + '\n')
print(out[-1])
