#!/bin/bash
# tools_confirm_mutant.sh <worktree> <mutant-dir> — re-confirm an independently written
# breaking change in a scratch worktree: (A) demo passes on the clean tree, (B) demo fails
# with the change, (C) the unedited suite passes with the change. Leaves the worktree clean.
set -u
WT="$1"; M="$2"
cd "$WT" || exit 2
git checkout -q -- . ; git clean -fdq tests src 2>/dev/null
run_demo() {
  if [ -f "$M/demo_test.rs" ]; then
    cp "$M/demo_test.rs" tests/zz_demo.rs
    cargo test --offline --features verif-hooks --test zz_demo >/tmp/confirm.$$.log 2>&1; RC=$?
    rm -f tests/zz_demo.rs
  else
    git apply "$M/demo.diff" || { echo "demo.diff does not apply"; return 99; }
    cargo test --offline --features verif-hooks --lib >/tmp/confirm.$$.log 2>&1; RC=$?
    git apply -R "$M/demo.diff"
  fi
  return $RC
}
run_demo; A=$?
git apply "$M/patch.diff" || { echo "patch does not apply"; exit 2; }
run_demo; B=$?
cargo test --workspace --no-fail-fast --offline >/tmp/confirm.$$.log 2>&1; C=$?
git checkout -q -- . ; git clean -fdq tests src 2>/dev/null
rm -f /tmp/confirm.$$.log
echo "demo-on-clean=$A demo-with-mutant=$B suite-with-mutant=$C"
if [ $A -eq 0 ] && [ $B -ne 0 ] && [ $B -ne 99 ] && [ $C -eq 0 ]; then echo CONFIRMED; exit 0; else echo NOT-CONFIRMED; exit 1; fi
