#!/usr/bin/env python3
"""Regenerates /verif/MANIFEST.json from the table below (kept in one place so that the
manifest stays valid while checks are added)."""
import json

CHECKS = {
 "C01": ("exploration",
  "Model-based stateful property testing: generated Raft-legal histories under generated chunk/read-buffer settings; after every op state, every read range and the chunk list are compared with a reference in-memory log (purges also into the hole below the first entry and at the last index with a newer term); the history is re-run under a second chunk configuration. Thorough adds a coverage-guided campaign (cargo-fuzz target hist_model, same oracle in-target, clean restarts included). Sampling of an unbounded history space, not proof.",
  "Trusts the reference model/codec in harness/src/{model,refcodec}.rs; unlimited cache; free-running worker.",
  "property-based testing (proptest): stateful model-based + metamorphic re-run under a second configuration", "DESIGN.md §4 C01"),
 "C02": ("exploration",
  "Generated histories (incl. update_state() and flush(None)) with close/open cycles at arbitrary positions under re-drawn chunk and cache limits; state, all entries and the offline dump must be identical across each restart and the history continues under the model oracle.",
  "Clean restart = flush acked Ok + worker idle + drop + worker thread gone. Known C07 class (re-append at or below an earlier id under a finite cache) excluded by construction, count reported.",
  "property-based testing (proptest): stateful model-based with restart round-trip", "DESIGN.md §4 C02"),
 "C06": ("exploration",
  "Generated histories with rejected writes of every rejection class at arbitrary points; before/after observation of state, entries, cache statistics, resident set, chunk list and on-disk bytes; final journal compared byte-for-byte with the reference encoding of accepted writes only; restart must succeed. The same oracle runs on a second Types whose vote order is partial (an incomparable vote is refused and must leave no trace).",
  "Rejection classes as listed in the property; worker idle around the rejected call so that asynchronous boundary updates cannot blur the comparison.",
  "property-based testing (proptest): stateful model-based, before/after invariance + differential journal", "DESIGN.md §4 C06"),
 "C11": ("exploration",
  "Differential check of the directory against an independent reference encoder and rotation rule after every settled flush (names, bytes, abutting offsets), of each returned segment, on_disk_size, stat() and dump(); plus the file-name codec on boundary/generated u64 offsets. Half of the cases run with worker faults that must not change the journal (failing fdatasyncs, short writes, EINTR) and failing chunk-file creations on the caller thread (after which layout-independent journal invariants are checked: files abut, decode completely, start with a State record, end at the reported journal end).",
  "Reference encoder/formatter in harness/src/refcodec.rs; compared only after flush + worker idle.",
  "property-based testing (proptest): differential against a reference encoder/layout model", "DESIGN.md §4 C11"),
 "C16": ("exploration",
  "Generated legal histories interleaved with argument probes drawn from integer limits and values around purged/last for every public operation incl. update_state; every call and the observers that follow run under catch_unwind in a build with overflow checks and debug assertions on.",
  "Only panics are judged after an unmodelled probe. Known class index-near-u64max (known_findings.json) is reported as KNOWN-FINDING and ends the affected case.",
  "property-based testing (proptest): boundary-value argument fuzzing over reachable states, panic oracle", "DESIGN.md §4 C16"),
 "C07": ("exploration",
  "Generated histories x cache limits incl. 0 x generated worker schedules: the flush worker is gated at every write/fdatasync/unlink/callback, reads (range, full, snapshot iteration, concurrent reader threads) are checked against the model after every op and every single worker step, across restarts; half of the cases add worker I/O faults (failed / short / torn writes, failed syncs) after which everything the store returns must still be what was supplied; four shards add a free-running drain stress (hundreds of queued flushes, four reader threads reading until the worker is idle).",
  "Worker schedules at file-system-call granularity, caller at operation granularity; finer races only stressed. Re-appends at or below an earlier id are part of the search: the known finding (known_findings.json) is recognised by its exact input class — a live entry not yet safely on disk whose id is at or below the eviction boundary the unchanged design has at that moment, computed from the expected layout and the traced worker syncs — and a read error outside that window is a violation.",
  "property-based testing (proptest): stateful model-based over generated schedules (gated worker via libc interposition)", "DESIGN.md §4 C07"),
 "C15": ("exploration",
  "Generated histories x small cache limits x generated worker schedules; after every op and every worker step stat() is compared with the resident set from the guarded accessor; over-limit states after appends must hold only entries above the boundary; after idle + drain nothing at or below the boundary is resident.",
  "Resident set via verif-hooks accessor; over-limit clause judged after appends (the writes that insert and trigger eviction), see DESIGN.md.",
  "property-based testing (proptest): stateful invariant checking over generated schedules", "DESIGN.md §4 C15"),
 "C03": ("fault_enumeration",
  "Per generated (history, worker schedule): every position of the totally ordered I/O trace is a crash point; process-crash images (incl. prefixes of the write in progress) are enumerated completely, power-loss images from a fixed per-file variant list (prefixes of unsynced bytes, zero tails from record boundaries) with sampled cross-file combinations; every distinct image is opened with the real RaftLog::open and, if it opens, must equal a model prefix between 'acknowledged' and 'issued'. Half of the histories carry worker I/O faults (failed syncs, failed / short / torn writes). Double crash: at sampled process-crash points with unsynced bytes the recovery is run and traced, then power is lost at every point of the recovery (only bytes synced in the first run are durable); same oracle. The histories themselves are sampled.",
  "Crash model of the property (no lost directory entries / no reordering inside synced data); caller-side calls ungated (argued in DESIGN.md §2.3); Err/panic outcomes belong to C05.",
  "property-based testing (proptest) + crash-point/fault enumeration over a recorded I/O trace (libc interposition, shadow file system), model-prefix oracle", "DESIGN.md §4 C03"),
 "C05": ("fault_enumeration",
  "Same crash-image enumeration as C03; every image must open Ok (no Err, no panic); sampled recovered stores must follow the model through further writes, a restart and an acknowledged flush; (then three more restarts); recovery itself is traced and crashed again (depth 2, with the durability of the first run carried over). Failing images are classified by input class with the reference decoder.",
  "As C03. One known class (crash during rotation leaves a gap, known_findings.json) is reported as KNOWN-FINDING and counted as excluded.",
  "property-based testing (proptest) + crash-point enumeration incl. crash-during-recovery, open/usable oracle", "DESIGN.md §4 C05"),
 "C04": ("fault_enumeration",
  "Generated histories with many flushes x generated worker schedules x generated fault plans (k-th worker write/fdatasync fails once / repeatedly / forever with EIO or ENOSPC, short writes, torn writes, EINTR; a rotation on the caller thread that cannot create its chunk file). Every Ok callback in the trace is judged against the shadow file system: all bytes journalled before that flush are written, covered by a successful sync after the write, and equal the reference encoding; at-most-once, request order, exactly-once-Ok without faults.",
  "Single incarnation for fault histories; a later successful fdatasync counts as covering earlier written bytes.",
  "property-based testing (proptest) + fault injection and schedule control through libc interposition, trace oracle over a shadow file system", "DESIGN.md §4 C04"),
 "C08": ("fault_enumeration",
  "Purge-heavy generated histories (incl. flush(None)) x worker schedules x fdatasync / write / unlink fault plans (one case in three ends with a plain drop instead of a final flush); at every unlink in the trace: oldest-first, durable-image crash check right after the unlink (with and without the deleted file), no hole among remaining files; at a clean end the remaining files replay (reference decoder) to the model state and every provably obsolete closed chunk is gone.",
  "Liveness clause in its conservative reading (see DESIGN.md); images in the known C05 rotation-gap class skipped in the crash sub-check.",
  "property-based testing (proptest) + fault/crash enumeration at unlink events, metamorphic (with/without file) and model-prefix oracles", "DESIGN.md §4 C08"),
 "C14": ("exploration",
  "Generated purge-heavy histories with drop/reopen cycles under generated worker schedules: the last flush is stepped exactly to its callback, the store is dropped on a helper thread, the old worker's remaining gated calls are placed around the new instance's open/purge/flush; the trace must show no mutation by a dropped instance after its drop returned, open must show the acknowledged state (when 1-3 further writes were journalled after the last acknowledgement and never flushed: a prefix of the issued writes that contains the acknowledged ones), and the new instance must keep completing flushes.",
  "Same-process reopen; placement granularity = gated file-system calls of the old worker vs operations of the new instance.",
  "property-based testing (proptest): stateful model-based over generated schedules (gated worker), trace invariant", "DESIGN.md §4 C14"),
 "C09": ("fault_enumeration",
  "Per generated settled image: every byte of every complete record x replacement values (quick: bit flips + 0x00/0xFF/+-1 with a stride sub-sample above 4 000 pairs; thorough: all 255 values, 150 000 pairs) every middle chunk removed (also with the newest chunk cut down to no complete record), and byte flips in the newest chunk under a zero-filled tail (40 bytes / past two 4 KiB boundaries); each mutated image is opened with the real store (cache 0, so entries are read back from disk). Outcome must be Err or identical contents, never a panic; non-newest files untouched after a refused open. Mutations classified by field with the reference decoder.",
  "Single-byte corruption; two known classes (record overruns to end of file: silent truncation of the newest chunk / truncation of an older chunk by a refused open) are reported as KNOWN-FINDING and counted.",
  "property-based testing (proptest) for images + exhaustive/strided single-byte fault enumeration, differential against the unmutated store", "DESIGN.md §4 C09"),
 "C10": ("fault_enumeration",
  "Per generated settled image and both truncate_incomplete_record settings: every cut of the newest chunk and every zero tail from a record boundary (stride sub-sample above the budget, boundaries always included); oracle = reference replay of exactly the complete records present; sampled recovered stores continue under the model (writes, restart, acknowledged flush); with truncation off non-boundary images must be refused with all files untouched.",
  "Record boundaries and expected state from the reference decoder.",
  "property-based testing (proptest) for images + exhaustive/strided tail-fault enumeration, reference-replay oracle", "DESIGN.md §4 C10"),
 "C12": ("exploration",
  "Generated records of all six kinds (every Option combination, boundary integers, empty / Unicode / multi-KiB strings) and arbitrary byte strings: encode equals the independent reference encoding and the reported length; decode of encoding++junk round-trips and consumes exactly n; decoding through readers that deliver the bytes in pieces gives the same record; an encode into a writer that runs full fails and does not disturb the next encode; structural damage with the checksum recomputed (byte set, body byte dropped / inserted, other State version) must be refused or decode canonically; every truncation fails; every single-byte mutation and arbitrary input agrees with the reference decoder (Ok / UnexpectedEof / invalid, record, consumed length), never panics, and decoded records re-encode canonically. Saved libFuzzer corpus replayed in every tier; thorough adds the coverage-guided campaign (cargo-fuzz target c12_decode with the same differential oracle in-target).",
  "Reference codec written from the format description; libFuzzer campaign pinned only approximately by -seed/-runs, its saved inputs are the reproducible unit.",
  "property-based testing (proptest) round-trip + differential decoding; coverage-guided fuzzing (cargo-fuzz/libFuzzer) with in-target differential oracle", "DESIGN.md §4 C12"),
 "C13": ("exploration",
  "Generated programs over 2-5 contenders (threads and child processes) acting simultaneously in rounds (RaftLog::open / Dump::new / drop) on a directory whose newest chunk is torn before every round; interleaving-independent oracle: at most one owner, refusals while owned, exactly one grant on a free directory, success after drop, files untouched by refusals and equal to exactly one recovery after a grant; owners use what they opened (a Dump owner dumps); an owner that appended, purged and flushed and whose flush worker has stopped on a vanished chunk file still owns the directory, and a dump_data() snapshot that outlives it does not; a hammer phase with a witness file.",
  "Kernel interleavings inside flock are stressed (barrier, many programs), not enumerated.",
  "property-based testing (proptest): generated concurrent programs over real threads and processes, interleaving-independent invariants", "DESIGN.md §4 C13"),
}

ALL = [f"C{i:02d}" for i in range(1, 17)]

def main():
    checks = []
    for pid, (cat, text, note, tech, ref) in CHECKS.items():
        checks.append({
            "property_id": pid,
            "quick_cmd": f"./check {pid} quick",
            "thorough_cmd": f"./check {pid} thorough",
            "evidence_file": f"/verif/evidence/{pid}.json",
            "replay_cmd_template": f"./harness/target/release/rlv replay {pid} {{path}}",
            "engine": "rlv",
            "level_claimed": {"category": cat, "text": text, "design_ref": ref},
            "level_note": note,
            "technique": tech,
        })
    m = {
        "version": 1,
        "setup_cmd": "cd /verif/harness && CARGO_NET_OFFLINE=true cargo build --release --offline",
        "hooks": {
            "guard": "cargo feature verif-hooks",
            "enable": "path dependency raft-log = { path = \"/repo\", features = [\"verif-hooks\"] } in /verif/harness/Cargo.toml",
            "baseline_off_cmd": "cd /repo && cargo test --workspace --no-fail-fast --offline",
            "source_commits": ["3df2864"],
            "add_only": True,
        },
        "engines": [{
            "name": "rlv", "path": "/verif/harness", "serves_properties": sorted(CHECKS),
            "kind_free_text": "Rust binary (plus /verif/fuzz cargo-fuzz target for C12): proptest TestRunner in 16 child shards; reference model + reference codec; libc symbol interposition for I/O trace, worker gating, fault injection and shadow-FS crash images",
        }],
        "checks": checks,
        "not_applicable": [{"property_id": p, "reason": "check under construction in this round; not claimed yet"} for p in ALL if p not in CHECKS],
        "notes": "See DESIGN.md. Every check rebuilds /verif/harness against /repo's working tree. Genuine defects: known_findings.json.",
    }
    json.dump(m, open('/verif/MANIFEST.json', 'w'), indent=1)

main()
