//! Cases and their proptest generators.
//!
//! An `OpSpec` is an *abstract choice* that the interpreter resolves against the reference
//! model at execution time, so every subsequence of a valid history is valid again and
//! proptest's shrinking (drop ops, shrink numbers) always yields runnable histories.
//! Ratios (`pos`) are mapped monotonically with `pick()`, never with `%`.

use proptest::collection::vec;
use proptest::prelude::*;
use serde::Deserialize;
use serde::Serialize;

use crate::trace::FaultKind;
use crate::trace::FaultRule;
use crate::trace::FaultTarget;

/// Monotone map of a 16-bit ratio onto `0..n`.
pub fn pick(pos: u16, n: usize) -> usize {
    if n == 0 {
        return 0;
    }
    ((pos as usize) * n) >> 16
}

#[derive(Debug, Clone, PartialEq, Eq, Hash, Serialize, Deserialize)]
pub struct CfgSpec {
    pub max_records: Option<usize>,
    pub max_size: Option<usize>,
    pub read_buf: Option<usize>,
    pub cache_items: Option<usize>,
    pub cache_cap: Option<usize>,
    pub trunc: Option<bool>,
}

impl CfgSpec {
    pub fn to_config(&self, dir: &str) -> raft_log::Config {
        raft_log::Config {
            dir: dir.to_string(),
            log_cache_max_items: self.cache_items,
            log_cache_capacity: self.cache_cap,
            read_buffer_size: self.read_buf,
            chunk_max_records: self.max_records,
            chunk_max_size: self.max_size,
            truncate_incomplete_record: self.trunc,
        }
    }
    pub fn max_records(&self) -> usize {
        self.max_records.unwrap_or(1024 * 1024)
    }
    pub fn max_size(&self) -> usize {
        self.max_size.unwrap_or(1024 * 1024 * 1024)
    }
    pub fn simple() -> Self {
        CfgSpec { max_records: Some(5), max_size: None, read_buf: Some(4096), cache_items: None, cache_cap: None, trunc: None }
    }
}

#[derive(Debug, Clone, Copy, PartialEq, Eq, Hash, Serialize, Deserialize)]
pub enum TermSel {
    Same,
    Bump(u8),
}

#[derive(Debug, Clone, Copy, PartialEq, Eq, Hash, Serialize, Deserialize)]
pub enum FirstSel {
    Zero,
    Small(u8),
    Large,
}

#[derive(Debug, Clone, Copy, PartialEq, Eq, Hash, Serialize, Deserialize)]
pub enum PaySel {
    Empty,
    Tiny(u8),
    Mid,
    Big,
    Huge,
}

#[derive(Debug, Clone, Copy, PartialEq, Eq, Hash, Serialize, Deserialize)]
pub enum RejectKind {
    VoteLowerTerm,
    VoteLowerNode,
    AppendSame,
    AppendLowerTerm,
    AppendLowerIndex,
    AppendGap,
    CommitLower,
    TruncateBeyond,
    TruncateBelowPurged,
    /// A batch whose first 1-3 entries are legal and whose last entry is refused.
    BatchBadTail,
}

#[derive(Debug, Clone, Copy, PartialEq, Eq, Hash, Serialize, Deserialize)]
pub enum ArgSel {
    Zero,
    One,
    Max,
    MaxM1,
    PurgedM1,
    Purged,
    PurgedP1,
    LastM2,
    LastM1,
    Last,
    LastP1,
    LastP2,
    Rand(u32),
}

#[derive(Debug, Clone, PartialEq, Eq, Hash, Serialize, Deserialize)]
pub enum ProbeSpec {
    Truncate(ArgSel),
    Read(ArgSel, ArgSel),
    Purge(ArgSel, ArgSel),
    Commit(ArgSel, ArgSel),
    Append(Vec<(ArgSel, ArgSel)>),
    Vote(ArgSel, ArgSel),
    UserData(Option<u16>),
    /// update_state with every field chosen freely
    UpdateState { vote: Option<(ArgSel, ArgSel)>, last: Option<(ArgSel, ArgSel)>, committed: Option<(ArgSel, ArgSel)>, purged: Option<(ArgSel, ArgSel)>, ud: Option<u8> },
}

#[derive(Debug, Clone, PartialEq, Eq, Hash, Serialize, Deserialize)]
pub enum OpSpec {
    Vote { bump: u8, node: u8 },
    UserData { len: Option<u16> },
    Append { n: u8, term: TermSel, first: FirstSel, pay: PaySel },
    Truncate { pos: u16 },
    Purge { pos: u16, beyond: u8, noop: bool },
    Commit { pos: u16, beyond: bool },
    /// `nocb`: fire-and-forget `flush(None)` (only when `wait` is false).
    Flush {
        wait: bool,
        #[serde(default)]
        nocb: bool,
    },
    /// Let the flush worker perform `k` gated calls (stepped mode; 255 = run until idle).
    Steps(u8),
    Read { from: u16, len: u16 },
    Reopen { cfg: CfgSpec },
    /// `update_state()` with the current state changed in one field: 0 vote bumped, 1 committed
    /// moved to a live entry, 2 user data replaced, 3 `last` lowered to a live entry's id (the
    /// entries themselves stay: only the state is replaced), 4 `last` raised by one index.
    UpdateState { what: u8, pos: u16 },
    Reject { kind: RejectKind, sel: u16 },
    Probe(ProbeSpec),
    /// Concurrent readers: `k` threads read random ranges while the worker gets `steps` grants.
    Readers { k: u8, steps: u8, sel: u16 },
    /// Drop the store with the worker's remaining steps un-run, reopen it, and run the old
    /// worker's steps at `place` (0 = before open, 1 = after open, 2.. = after later ops).
    DropReopen { place: u8 },
}

#[derive(Debug, Clone, PartialEq, Eq, Hash, Serialize, Deserialize)]
pub struct Case {
    pub cfg: CfgSpec,
    pub ops: Vec<OpSpec>,
    /// Second configuration (metamorphic re-run / image opening).
    pub alt: Option<CfgSpec>,
    pub faults: Vec<FaultRule>,
    /// Source of the sub-choices made inside a case (image sampling, reader ranges).
    pub sel: u64,
    /// Records for the codec checks (C12).
    #[serde(default)]
    pub recs: Vec<crate::model::Rec>,
    /// Arbitrary byte strings for the decoder (C12).
    #[serde(default)]
    pub blobs: Vec<Vec<u8>>,
    /// Lock-contention program (C13).
    #[serde(default)]
    pub prog: Option<LockProg>,
}

#[derive(Debug, Clone, Copy, PartialEq, Eq, Hash, Serialize, Deserialize)]
pub enum LockAct {
    OpenLog,
    OpenDump,
    Drop,
}

/// Contenders `0..threads` are threads of the harness process, `threads..threads+procs` are
/// child processes. In every round the listed contenders act simultaneously (barrier).
#[derive(Debug, Clone, PartialEq, Eq, Hash, Serialize, Deserialize)]
pub struct LockProg {
    pub threads: u8,
    pub procs: u8,
    pub rounds: Vec<Vec<(u8, LockAct)>>,
}

impl Case {
    pub fn hash64(&self) -> u64 {
        use std::hash::Hash;
        use std::hash::Hasher;
        let mut h = std::collections::hash_map::DefaultHasher::new();
        self.hash(&mut h);
        h.finish()
    }
}

/// splitmix64: derive deterministic sub-choices from `Case::sel`.
pub fn mix(a: u64, b: u64) -> u64 {
    let mut z = a.wrapping_add(b.wrapping_mul(0x9E3779B97F4A7C15)).wrapping_add(0x9E3779B97F4A7C15);
    z = (z ^ (z >> 30)).wrapping_mul(0xBF58476D1CE4E5B9);
    z = (z ^ (z >> 27)).wrapping_mul(0x94D049BB133111EB);
    z ^ (z >> 31)
}

// ---------------------------------------------------------------------------------------
// Generators

#[derive(Debug, Clone)]
pub struct Profile {
    pub min_ops: usize,
    pub max_ops: usize,
    pub w_vote: u32,
    pub w_userdata: u32,
    pub w_append: u32,
    pub w_truncate: u32,
    pub w_purge: u32,
    pub w_commit: u32,
    pub w_flush: u32,
    pub w_steps: u32,
    pub w_read: u32,
    pub w_reopen: u32,
    pub w_reject: u32,
    pub w_probe: u32,
    pub w_readers: u32,
    pub w_dropreopen: u32,
    pub w_update_state: u32,
    /// cache limits: 0 = unlimited only, 1 = small limits incl. 0
    pub small_cache: bool,
    pub trunc_opt: bool,
    pub huge_payload: bool,
    pub big_read_buf: bool,
    pub with_alt: bool,
    pub faults: FaultGen,
    /// also draw chunk_max_records 40 / 100 (many pinned entries in one chunk)
    pub big_chunks: bool,
    /// now and then an append of 30-70 entries
    pub big_batches: bool,
    /// purges may carry a newer term at a live index *below* the last one (a snapshot of a newer
    /// leader that covers only a prefix): `last` then lies below live entries. Only for checks
    /// without restarts and cache pressure (C01).
    pub purge_inside_newer_term: bool,
}

#[derive(Debug, Clone, Copy, PartialEq, Eq)]
pub enum FaultGen {
    None,
    /// sync / write failures, short writes, EINTR
    Io,
    /// sync failures only (plus benign short writes)
    SyncOnly,
    /// sync failures, benign short writes, and failing unlinks
    SyncAndUnlink,
    /// `Io` plus failing chunk-file creations on the caller thread
    IoAndCreate,
    /// faults that must not change the journal (failed syncs, short writes, EINTR) plus failing
    /// chunk-file creations on the caller thread
    SyncAndCreate,
}

impl Profile {
    pub fn base(max_ops: usize) -> Self {
        Profile {
            min_ops: 1,
            max_ops,
            w_vote: 2,
            w_userdata: 1,
            w_append: 8,
            w_truncate: 2,
            w_purge: 2,
            w_commit: 2,
            w_flush: 2,
            w_steps: 0,
            w_read: 2,
            w_reopen: 0,
            w_reject: 0,
            w_probe: 0,
            w_readers: 0,
            w_dropreopen: 0,
            w_update_state: 0,
            small_cache: false,
            trunc_opt: false,
            huge_payload: false,
            big_read_buf: false,
            with_alt: false,
            faults: FaultGen::None,
            big_chunks: false,
            big_batches: false,
            purge_inside_newer_term: false,
        }
    }
}

fn opt_of(vals: &'static [Option<usize>]) -> impl Strategy<Value = Option<usize>> {
    (0..vals.len()).prop_map(move |i| vals[i])
}

pub fn cfg_strategy(p: &Profile) -> BoxedStrategy<CfgSpec> {
    static RECS: [Option<usize>; 11] = [Some(0), Some(1), Some(2), Some(3), Some(4), Some(5), Some(5), Some(8), Some(20), None, Some(3)];
    static SIZES: [Option<usize>; 10] = [Some(0), Some(1), Some(60), Some(150), Some(400), Some(5000), None, None, None, Some(150)];
    static RBUF: [Option<usize>; 6] = [Some(0), Some(1), Some(7), Some(64), Some(4096), Some(4096)];
    static RBUF_BIG: [Option<usize>; 7] = [Some(0), Some(1), Some(7), Some(64), Some(4096), Some(4096), None];
    static ITEMS_SMALL: [Option<usize>; 7] = [Some(0), Some(1), Some(2), Some(3), Some(10), None, Some(0)];
    static CAP_SMALL: [Option<usize>; 6] = [Some(0), Some(1), Some(8), Some(64), None, None];
    static UNLIM: [Option<usize>; 1] = [None];
    static RECS_BIG: [Option<usize>; 8] = [Some(1), Some(3), Some(5), Some(20), Some(40), Some(40), Some(100), None];
    let rbuf = if p.big_read_buf { opt_of(&RBUF_BIG).boxed() } else { opt_of(&RBUF).boxed() };
    let (items, cap) = if p.small_cache { (opt_of(&ITEMS_SMALL).boxed(), opt_of(&CAP_SMALL).boxed()) } else { (opt_of(&UNLIM).boxed(), opt_of(&UNLIM).boxed()) };
    let trunc = if p.trunc_opt { prop_oneof![Just(None), Just(Some(true)), Just(Some(false))].boxed() } else { Just(None).boxed() };
    let recs = if p.big_chunks { opt_of(&RECS_BIG).boxed() } else { opt_of(&RECS).boxed() };
    (recs, opt_of(&SIZES), rbuf, items, cap, trunc)
        .prop_map(|(max_records, max_size, read_buf, cache_items, cache_cap, trunc)| CfgSpec { max_records, max_size, read_buf, cache_items, cache_cap, trunc })
        .boxed()
}

fn pay_strategy(huge: bool) -> BoxedStrategy<PaySel> {
    let mut v: Vec<(u32, BoxedStrategy<PaySel>)> = vec![
        (2, Just(PaySel::Empty).boxed()),
        (10, (1u8..=16).prop_map(PaySel::Tiny).boxed()),
        (3, Just(PaySel::Mid).boxed()),
        (1, Just(PaySel::Big).boxed()),
    ];
    if huge {
        v.push((1, Just(PaySel::Huge).boxed()));
    }
    proptest::strategy::Union::new_weighted(v).boxed()
}

fn argsel() -> impl Strategy<Value = ArgSel> {
    prop_oneof![
        Just(ArgSel::Zero),
        Just(ArgSel::One),
        Just(ArgSel::Max),
        Just(ArgSel::MaxM1),
        Just(ArgSel::PurgedM1),
        Just(ArgSel::Purged),
        Just(ArgSel::PurgedP1),
        Just(ArgSel::LastM2),
        Just(ArgSel::LastM1),
        Just(ArgSel::Last),
        Just(ArgSel::LastP1),
        Just(ArgSel::LastP2),
        any::<u32>().prop_map(ArgSel::Rand),
    ]
}

fn probe_strategy() -> impl Strategy<Value = ProbeSpec> {
    let pair = || (argsel(), argsel());
    prop_oneof![
        3 => argsel().prop_map(ProbeSpec::Truncate),
        3 => pair().prop_map(|(a, b)| ProbeSpec::Read(a, b)),
        3 => pair().prop_map(|(a, b)| ProbeSpec::Purge(a, b)),
        2 => pair().prop_map(|(a, b)| ProbeSpec::Commit(a, b)),
        3 => vec(pair(), 0..4).prop_map(ProbeSpec::Append),
        2 => pair().prop_map(|(a, b)| ProbeSpec::Vote(a, b)),
        1 => proptest::option::of(0u16..300).prop_map(ProbeSpec::UserData),
        2 => (proptest::option::of(pair()), proptest::option::of(pair()), proptest::option::of(pair()), proptest::option::of(pair()), proptest::option::of(0u8..20))
            .prop_map(|(vote, last, committed, purged, ud)| ProbeSpec::UpdateState { vote, last, committed, purged, ud }),
    ]
}

fn reject_kind() -> impl Strategy<Value = RejectKind> {
    prop_oneof![
        Just(RejectKind::VoteLowerTerm),
        Just(RejectKind::VoteLowerNode),
        Just(RejectKind::AppendSame),
        Just(RejectKind::AppendLowerTerm),
        Just(RejectKind::AppendLowerIndex),
        Just(RejectKind::AppendGap),
        Just(RejectKind::CommitLower),
        Just(RejectKind::TruncateBeyond),
        Just(RejectKind::TruncateBelowPurged),
        Just(RejectKind::BatchBadTail),
        Just(RejectKind::BatchBadTail),
    ]
}

pub fn op_strategy(p: &Profile) -> BoxedStrategy<OpSpec> {
    let mut v: Vec<(u32, BoxedStrategy<OpSpec>)> = vec![];
    let mut add = |w: u32, s: BoxedStrategy<OpSpec>| {
        if w > 0 {
            v.push((w, s));
        }
    };
    add(p.w_vote, (0u8..=2, 0u8..=3).prop_map(|(bump, node)| OpSpec::Vote { bump, node }).boxed());
    add(p.w_userdata, proptest::option::weighted(0.8, prop_oneof![Just(0u16), 1u16..40, Just(300u16)]).prop_map(|len| OpSpec::UserData { len }).boxed());
    add(
        p.w_append,
        (
            // mostly small batches; now and then one that spans several chunks / owes many evictions
            if p.big_batches { prop_oneof![24 => 1u8..=6, 1 => 30u8..=70].boxed() } else { (1u8..=6).boxed() },
            prop_oneof![6 => Just(TermSel::Same), 3 => (1u8..=3).prop_map(TermSel::Bump)],
            prop_oneof![3 => Just(FirstSel::Zero), 3 => (1u8..=5).prop_map(FirstSel::Small), 1 => Just(FirstSel::Large)],
            pay_strategy(p.huge_payload),
        )
            .prop_map(|(n, term, first, pay)| OpSpec::Append { n, term, first, pay })
            .boxed(),
    );
    add(p.w_truncate, any::<u16>().prop_map(|pos| OpSpec::Truncate { pos }).boxed());
    add(
        p.w_purge,
        (any::<u16>(), if p.purge_inside_newer_term { prop_oneof![5 => Just(0u8), 1 => 1u8..=5].boxed() } else { prop_oneof![5 => Just(0u8), 1 => 1u8..=4].boxed() }, proptest::bool::weighted(0.08)).prop_map(|(pos, beyond, noop)| OpSpec::Purge { pos, beyond, noop }).boxed(),
    );
    add(p.w_commit, (any::<u16>(), proptest::bool::weighted(0.15)).prop_map(|(pos, beyond)| OpSpec::Commit { pos, beyond }).boxed());
    add(p.w_flush, (proptest::bool::weighted(0.5), proptest::bool::weighted(0.3)).prop_map(|(wait, nocb)| OpSpec::Flush { wait, nocb: nocb && !wait }).boxed());
    add(p.w_steps, prop_oneof![1 => Just(0u8), 4 => Just(1u8), 3 => Just(2u8), 2 => Just(3u8), 1 => Just(5u8), 2 => Just(255u8)].prop_map(OpSpec::Steps).boxed());
    add(p.w_read, (any::<u16>(), prop_oneof![Just(0u16), 1u16..6, Just(1000u16)]).prop_map(|(from, len)| OpSpec::Read { from, len }).boxed());
    add(p.w_reopen, cfg_strategy(p).prop_map(|cfg| OpSpec::Reopen { cfg }).boxed());
    add(p.w_reject, (reject_kind(), any::<u16>()).prop_map(|(kind, sel)| OpSpec::Reject { kind, sel }).boxed());
    add(p.w_probe, probe_strategy().prop_map(OpSpec::Probe).boxed());
    add(p.w_readers, (prop_oneof![Just(1u8), Just(2u8), Just(4u8)], 0u8..=4, any::<u16>()).prop_map(|(k, steps, sel)| OpSpec::Readers { k, steps, sel }).boxed());
    add(p.w_dropreopen, (0u8..=4).prop_map(|place| OpSpec::DropReopen { place }).boxed());
    add(p.w_update_state, (0u8..=4, any::<u16>()).prop_map(|(what, pos)| OpSpec::UpdateState { what, pos }).boxed());
    proptest::strategy::Union::new_weighted(v).boxed()
}

pub fn fault_strategy(g: FaultGen) -> BoxedStrategy<Vec<FaultRule>> {
    match g {
        FaultGen::None => Just(vec![]).boxed(),
        FaultGen::Io | FaultGen::SyncOnly | FaultGen::SyncAndUnlink | FaultGen::IoAndCreate | FaultGen::SyncAndCreate => {
            let sync_rule = (0u32..12, prop_oneof![4 => Just(1u32), 3 => Just(2u32), 1 => Just(3u32), 1 => Just(u32::MAX / 2)], prop_oneof![Just(FaultKind::Eio), Just(FaultKind::Enospc)])
                .prop_map(|(nth, count, kind)| FaultRule { target: FaultTarget::WorkerSync, nth, count, kind });
            let short_rule = (0u32..12, 1u32..3, any::<u8>()).prop_map(|(nth, count, k)| FaultRule { target: FaultTarget::WorkerWrite, nth, count, kind: FaultKind::Short(k) });
            let eintr_rule = (0u32..12, 1u32..3).prop_map(|(nth, count)| FaultRule { target: FaultTarget::WorkerWrite, nth, count, kind: FaultKind::Eintr });
            let write_rule = (0u32..12, prop_oneof![3 => Just(1u32), 1 => Just(u32::MAX / 2)], prop_oneof![Just(FaultKind::Eio), Just(FaultKind::Enospc)])
                .prop_map(|(nth, count, kind)| FaultRule { target: FaultTarget::WorkerWrite, nth, count, kind });
            let torn_rule = (0u32..12, any::<u8>()).prop_map(|(nth, k)| FaultRule { target: FaultTarget::WorkerWrite, nth, count: 1, kind: FaultKind::ShortThenFail(k) });
            let unlink_rule = (0u32..4, prop_oneof![3 => Just(1u32), 1 => Just(u32::MAX / 2)]).prop_map(|(nth, count)| FaultRule { target: FaultTarget::WorkerUnlink, nth, count, kind: FaultKind::Eio });
            // nth 0 is the creation of the first chunk by open(): never failed
            let create_rule = (1u32..8, prop_oneof![3 => Just(1u32), 1 => Just(2u32)]).prop_map(|(nth, count)| FaultRule { target: FaultTarget::CallerCreate, nth, count, kind: FaultKind::Enospc });
            let one: BoxedStrategy<FaultRule> = if g == FaultGen::IoAndCreate {
                prop_oneof![5 => sync_rule, 2 => short_rule, 1 => eintr_rule, 2 => write_rule, 2 => torn_rule, 4 => create_rule].boxed()
            } else if g == FaultGen::SyncAndCreate {
                prop_oneof![5 => sync_rule, 2 => short_rule, 1 => eintr_rule, 4 => create_rule].boxed()
            } else if g == FaultGen::SyncAndUnlink {
                prop_oneof![5 => sync_rule, 2 => short_rule, 1 => eintr_rule, 3 => unlink_rule, 2 => write_rule, 1 => torn_rule].boxed()
            } else if g == FaultGen::Io {
                prop_oneof![5 => sync_rule, 2 => short_rule, 1 => eintr_rule, 2 => write_rule, 2 => torn_rule].boxed()
            } else {
                prop_oneof![6 => sync_rule, 2 => short_rule, 1 => eintr_rule].boxed()
            };
            prop_oneof![1 => Just(vec![]), 6 => vec(one, 1..=2)].boxed()
        }
    }
}

pub fn case_strategy(p: &Profile) -> BoxedStrategy<Case> {
    let alt = if p.with_alt { cfg_strategy(p).prop_map(Some).boxed() } else { Just(None).boxed() };
    (cfg_strategy(p), vec(op_strategy(p), p.min_ops..=p.max_ops), alt, fault_strategy(p.faults), any::<u64>())
        .prop_map(|(cfg, ops, alt, faults, sel)| Case { cfg, ops, alt, faults, sel, recs: vec![], blobs: vec![], prog: None })
        .boxed()
}

/// The history of the crate's own test-suite (`sample_data::build_sample_data_purge_upto_3`)
/// expressed as a case; it is the first case of every history-based check.
pub fn sample_case() -> Case {
    use OpSpec::*;
    Case {
        cfg: CfgSpec::simple(),
        ops: vec![
            Append { n: 4, term: TermSel::Bump(1), first: FirstSel::Zero, pay: PaySel::Tiny(5) },
            Truncate { pos: 40000 },
            Append { n: 2, term: TermSel::Bump(1), first: FirstSel::Zero, pay: PaySel::Tiny(5) },
            Commit { pos: 30000, beyond: false },
            Purge { pos: 20000, beyond: 0, noop: false },
            Flush { wait: true, nocb: false },
            Append { n: 4, term: TermSel::Same, first: FirstSel::Zero, pay: PaySel::Tiny(3) },
            Flush { wait: true, nocb: false },
            Purge { pos: 20000, beyond: 0, noop: false },
            Flush { wait: true, nocb: false },
            Read { from: 0, len: 1000 },
        ],
        alt: Some(CfgSpec { max_records: Some(7), ..CfgSpec::simple() }),
        faults: vec![],
        sel: 1,
        recs: vec![],
        blobs: vec![],
        prog: None,
    }
}

// ---------------------------------------------------------------------------------------
// Record generators (C12)

pub fn int_strategy() -> BoxedStrategy<u64> {
    prop_oneof![
        Just(0u64),
        Just(1u64),
        Just((1u64 << 32) - 1),
        Just(1u64 << 32),
        Just((1u64 << 32) + 1),
        Just(1u64 << 63),
        Just(u64::MAX),
        Just(u64::MAX - 1),
        any::<u64>(),
        0u64..1000,
    ]
    .boxed()
}

pub fn id_strategy() -> BoxedStrategy<(u64, u64)> {
    (int_strategy(), int_strategy()).boxed()
}

pub fn string_strategy() -> BoxedStrategy<String> {
    prop_oneof![
        2 => Just(String::new()),
        4 => "[ -~]{1,24}",
        3 => "\\PC{1,30}",
        1 => (1usize..8192, any::<u8>()).prop_map(|(n, c)| {
            let ch = (b'a' + c % 26) as char;
            std::iter::repeat(ch).take(n).collect::<String>()
        }),
        1 => (1usize..3000).prop_map(|n| "\u{e9}\u{4e2d}\u{1f600}x".chars().cycle().take(n).collect::<String>()),
    ]
    .boxed()
}

pub fn rec_strategy() -> BoxedStrategy<crate::model::Rec> {
    use crate::model::MState;
    use crate::model::Rec;
    let opt_id = || proptest::option::of(id_strategy());
    prop_oneof![
        id_strategy().prop_map(Rec::Vote),
        (id_strategy(), string_strategy()).prop_map(|(i, p)| Rec::Append(i, p)),
        id_strategy().prop_map(Rec::Commit),
        opt_id().prop_map(Rec::TruncateAfter),
        id_strategy().prop_map(Rec::PurgeUpto),
        (opt_id(), opt_id(), opt_id(), opt_id(), proptest::option::of(string_strategy())).prop_map(|(vote, last, committed, purged, user_data)| Rec::State(MState { vote, last, committed, purged, user_data })),
    ]
    .boxed()
}

pub fn codec_case_strategy(max_recs: usize) -> BoxedStrategy<Case> {
    (vec(rec_strategy(), 1..=max_recs), vec(vec(any::<u8>(), 0..120), 0..6), any::<u64>())
        .prop_map(|(recs, blobs, sel)| Case { cfg: CfgSpec::simple(), ops: vec![], alt: None, faults: vec![], sel, recs, blobs, prog: None })
        .boxed()
}

// ---------------------------------------------------------------------------------------
// Lock programs (C13)

pub fn lock_case_strategy(max_rounds: usize) -> BoxedStrategy<Case> {
    let act = prop_oneof![5 => Just(LockAct::OpenLog), 2 => Just(LockAct::OpenDump), 3 => Just(LockAct::Drop)];
    (1u8..=3, 1u8..=2)
        .prop_flat_map(move |(threads, procs)| {
            let n = threads + procs;
            let round = vec((0..n, act.clone()), 1..=(n as usize)).prop_map(|mut v| {
                // one action per contender and round
                v.sort_by_key(|x| x.0);
                v.dedup_by_key(|x| x.0);
                v
            });
            (Just(threads), Just(procs), vec(round, 2..=max_rounds), any::<u64>())
        })
        .prop_map(|(threads, procs, rounds, sel)| Case {
            cfg: CfgSpec::simple(),
            ops: sample_case().ops,
            alt: None,
            faults: vec![],
            sel,
            recs: vec![],
            blobs: vec![],
            prog: Some(LockProg { threads, procs, rounds }),
        })
        .boxed()
}
