#![allow(dead_code, unused_imports, unused_variables, unused_assignments, clippy::all)]
//! rlv — property-based verification harness for raft-log.
//!
//!   rlv check <ID> [--tier quick|thorough] [--seed N] [--shards K]
//!   rlv shard <ID> <tier> <seed> <shard> <nshards> <out.json>      (internal)
//!   rlv replay <ID> <file> [--strict]

mod crash;
mod driver;
mod images;
mod model;
mod ops;
mod props;
mod refcodec;
mod runner;
mod shadowfs;
mod trace;
mod types;

use runner::Tier;

fn arg_after(args: &[String], flag: &str) -> Option<String> {
    args.iter().position(|a| a == flag).and_then(|i| args.get(i + 1).cloned())
}

fn main() {
    let args: Vec<String> = std::env::args().collect();
    if args.len() < 3 {
        eprintln!("usage: rlv check <ID> [--tier T] [--seed N] | rlv replay <ID> <file> [--strict]");
        std::process::exit(64);
    }
    let cmd = args[1].as_str();
    let id = args[2].as_str();
    let Some(prop) = props::by_id(id) else {
        eprintln!("unknown property {}", id);
        std::process::exit(64);
    };
    match cmd {
        "check" => {
            let tier = Tier::parse(&arg_after(&args, "--tier").or_else(|| std::env::var("VERIF_TIER").ok()).unwrap_or_else(|| "quick".into()));
            let seed = arg_after(&args, "--seed").or_else(|| std::env::var("VERIF_SEED").ok()).and_then(|s| s.parse::<u64>().ok()).unwrap_or(0);
            let shards = arg_after(&args, "--shards").and_then(|s| s.parse().ok()).unwrap_or(16);
            let code = runner::run_check(prop.as_ref(), tier, seed, shards);
            std::process::exit(code);
        }
        "shard" => {
            props::install_panic_hook();
            let tier = Tier::parse(&args[3]);
            let seed: u64 = args[4].parse().unwrap();
            let shard: usize = args[5].parse().unwrap();
            let nshards: usize = args[6].parse().unwrap();
            let out = &args[7];
            let rep = runner::run_shard(prop.as_ref(), tier, seed, shard, nshards);
            std::fs::write(out, serde_json::to_string(&rep).unwrap()).expect("write shard report");
            let _ = std::fs::remove_dir_all(format!("/dev/shm/rlv-{}", std::process::id()));
            std::process::exit(0);
        }
        "replay" => {
            props::install_panic_hook();
            let strict = args.iter().any(|a| a == "--strict");
            let code = runner::replay(prop.as_ref(), &args[3], strict);
            let _ = std::fs::remove_dir_all(format!("/dev/shm/rlv-{}", std::process::id()));
            std::process::exit(code);
        }
        _ => {
            eprintln!("unknown command {}", cmd);
            std::process::exit(64);
        }
    }
}
