#![allow(dead_code, unused_imports, unused_variables, unused_assignments, clippy::all)]
//! rlv — property-based verification harness for raft-log.
//!
//!   rlv check <ID> [--tier quick|thorough] [--seed N] [--shards K]
//!   rlv shard <ID> <tier> <seed> <shard> <nshards> <out.json>      (internal)
//!   rlv replay <ID> <file> [--strict]

mod crash;
mod deepq;
mod driver;
mod fuzzrun;
mod images;
mod model;
mod ops;
mod pinwin;
mod pvote;
mod props;
mod refcodec;
mod runner;
mod shadowfs;
mod trace;
mod types;

use runner::Tier;

fn arg_after(args: &[String], flag: &str) -> Option<String> {
    args.iter().position(|a| a == flag).and_then(|i| args.get(i + 1).cloned())
}

fn main() {
    let args: Vec<String> = std::env::args().collect();
    if args.len() < 3 {
        eprintln!("usage: rlv check <ID> [--tier T] [--seed N] | rlv replay <ID> <file> [--strict]");
        std::process::exit(64);
    }
    let cmd = args[1].as_str();
    if cmd == "lock-child" {
        props::install_panic_hook();
        props::c13::lock_child(&args[2]);
        return;
    }
    if cmd == "seed-corpus" {
        seed_corpus(&args[2]);
        return;
    }
    let id = args[2].as_str();
    let Some(prop) = props::by_id(id) else {
        eprintln!("unknown property {}", id);
        std::process::exit(64);
    };
    match cmd {
        "check" => {
            let tier = Tier::parse(&arg_after(&args, "--tier").or_else(|| std::env::var("VERIF_TIER").ok()).unwrap_or_else(|| "quick".into()));
            let seed = arg_after(&args, "--seed").or_else(|| std::env::var("VERIF_SEED").ok()).and_then(|s| s.parse::<u64>().ok()).unwrap_or(0);
            let shards = arg_after(&args, "--shards").and_then(|s| s.parse().ok()).unwrap_or(16);
            let code = runner::run_check(prop.as_ref(), tier, seed, shards);
            std::process::exit(code);
        }
        "shard" => {
            props::install_panic_hook();
            let tier = Tier::parse(&args[3]);
            let seed: u64 = args[4].parse().unwrap();
            let shard: usize = args[5].parse().unwrap();
            let nshards: usize = args[6].parse().unwrap();
            let out = &args[7];
            let rep = runner::run_shard(prop.as_ref(), tier, seed, shard, nshards);
            std::fs::write(out, serde_json::to_string(&rep).unwrap()).expect("write shard report");
            let _ = std::fs::remove_dir_all(format!("/dev/shm/rlv-{}", std::process::id()));
            std::process::exit(0);
        }
        "replay" => {
            props::install_panic_hook();
            let strict = args.iter().any(|a| a == "--strict");
            let code = runner::replay(prop.as_ref(), &args[3], strict);
            let _ = std::fs::remove_dir_all(format!("/dev/shm/rlv-{}", std::process::id()));
            std::process::exit(code);
        }
        _ => {
            eprintln!("unknown command {}", cmd);
            std::process::exit(64);
        }
    }
}

/// Write seed inputs for the c12_decode fuzz target: reference encodings of hand-picked
/// records and every record of the repository's compatibility chunk files.
fn seed_corpus(dir: &str) {
    use model::MState;
    use model::Rec;
    std::fs::create_dir_all(dir).unwrap();
    let st = MState { vote: Some((1, 2)), last: Some((2, 3)), committed: Some((4, 5)), purged: Some((6, 7)), user_data: Some("hello".into()) };
    let recs = vec![
        Rec::Vote((1, 2)),
        Rec::Vote((u64::MAX, 0)),
        Rec::Append((1, 2), "hello".into()),
        Rec::Append((3, 4), String::new()),
        Rec::Append((1 << 40, 7), "\u{e9}\u{4e2d}".into()),
        Rec::Commit((1, 2)),
        Rec::TruncateAfter(Some((1, 2))),
        Rec::TruncateAfter(None),
        Rec::PurgeUpto((1, 2)),
        Rec::State(st.clone()),
        Rec::State(MState::default()),
        Rec::State(MState { user_data: Some(String::new()), ..MState::default() }),
        Rec::State(MState { vote: None, last: Some((9, 9)), committed: None, purged: Some((1, 1)), user_data: None }),
    ];
    let mut n = 0;
    for r in &recs {
        std::fs::write(format!("{}/seed-{:02}", dir, n), refcodec::encode(r)).unwrap();
        n += 1;
    }
    // two records back to back, and a torn one
    let mut two = refcodec::encode(&recs[0]);
    two.extend(refcodec::encode(&recs[2]));
    std::fs::write(format!("{}/seed-{:02}", dir, n), &two).unwrap();
    n += 1;
    std::fs::write(format!("{}/seed-{:02}", dir, n), &two[..two.len() - 3]).unwrap();
    n += 1;
    if let Ok(rd) = std::fs::read_dir("/repo/tests/compat/0.2.6/raft-log") {
        let mut paths: Vec<_> = rd.flatten().map(|e| e.path()).filter(|p| p.extension().map(|e| e == "wal").unwrap_or(false)).collect();
        paths.sort();
        for p in paths {
            let d = std::fs::read(&p).unwrap();
            let parsed = refcodec::parse_chunk(&d);
            let b = parsed.boundaries();
            for w in b.windows(2) {
                std::fs::write(format!("{}/compat-{:02}", dir, n), &d[w[0]..w[1]]).unwrap();
                n += 1;
            }
        }
    }
    println!("wrote {} seeds to {}", n, dir);
}
