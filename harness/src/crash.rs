//! Crash exploration shared by C03 / C05 / C08: run a history under a generated worker
//! schedule with the I/O trace on, then enumerate crash points and the post-crash images
//! the crash model allows, and open each image with the real `RaftLog::open`.

use std::collections::BTreeSet;
use std::panic::catch_unwind;
use std::panic::AssertUnwindSafe;
use std::sync::Arc;

use raft_log::RaftLog;

use crate::driver::fresh_dir;
use crate::driver::observe;
use crate::driver::panic_msg;
use crate::driver::remove_dir;
use crate::driver::Fail;
use crate::driver::FlushInfo;
use crate::driver::Run;
use crate::model::Model;
use crate::model::Snapshot;
use crate::ops::mix;
use crate::ops::Case;
use crate::ops::CfgSpec;
use crate::ops::OpSpec;
use crate::props::with_run;
use crate::refcodec;
use crate::shadowfs;
use crate::shadowfs::materialise;
use crate::shadowfs::power_variants;
use crate::shadowfs::Image;
use crate::shadowfs::SFile;
use crate::shadowfs::Shadow;
use crate::shadowfs::Variant;
use crate::trace::Ev;
use crate::trace::Mark;
use crate::types::VT;

/// Everything recorded about one traced execution of a history.
pub struct Recorded {
    pub trace: Vec<Ev>,
    pub names: Vec<String>,
    pub model: Model,
    pub flushes: Vec<FlushInfo>,
    pub records_after_op: Vec<usize>,
    pub classes: crate::driver::Classes,
    pub excluded: u64,
    pub faults_hit: u32,
    pub hard_faults_hit: u32,
    pub layout: Option<crate::driver::Layout>,
}

/// Execute the history of `case` in stepped mode and return the recording.
pub fn record(case: &Case, avoid_reappend: bool, settle_at_end: bool) -> Result<Recorded, Fail> {
    record_with(case, avoid_reappend, settle_at_end, |_| Ok(())).map(|x| x.0)
}

/// Like `record`, with extra work on the live store at the end of the history.
pub fn record_with<T>(case: &Case, avoid_reappend: bool, settle_at_end: bool, at_end: impl FnOnce(&mut Run) -> Result<T, Fail>) -> Result<(Recorded, T), Fail> {
    let (r, ctl) = with_run(&case.cfg, true, &case.faults, |run| {
        run.avoid_low_reappend = avoid_reappend;
        for op in &case.ops {
            match op {
                OpSpec::Reject { .. } | OpSpec::Probe(_) | OpSpec::DropReopen { .. } | OpSpec::Readers { .. } | OpSpec::Read { .. } => continue,
                OpSpec::Reopen { cfg } => {
                    if !case.faults.is_empty() {
                        continue;
                    }
                    run.clean_reopen(cfg)?;
                }
                _ => match run.exec(op) {
                    Ok(_) => {}
                    Err(f) => {
                        // with injected faults the worker may be dead: the history ends here
                        if !case.faults.is_empty() && (f.key == "flush-call-err" || f.key == "legal-write-refused") {
                            run.classes.hit("history_cut_by_fault");
                            break;
                        }
                        return Err(f);
                    }
                },
            }
        }
        if settle_at_end {
            run.run_to_idle();
        }
        let t = at_end(run)?;
        Ok((run.model.clone(), run.flushes.clone(), run.records_after_op.clone(), run.classes.clone(), run.excluded, run.layout.clone(), t))
    })?;
    let (model, flushes, records_after_op, classes, excluded, layout, t) = r;
    Ok((Recorded { trace: ctl.trace, names: ctl.names, model, flushes, records_after_op, classes, excluded, faults_hit: ctl.faults_hit, hard_faults_hit: ctl.hard_faults_hit, layout }, t))
}

/// Bounds of the prefix a recovery may show when the crash happens with `q` events done.
#[derive(Debug, Clone, Copy, PartialEq, Eq)]
pub struct Bounds {
    /// records journalled by flushes acknowledged Ok before q
    pub acked: usize,
    /// records journalled by operations begun before q
    pub issued: usize,
}

pub fn bounds_at(rec: &Recorded, q: usize) -> Bounds {
    let mut acked = 0;
    let mut issued = 0;
    for ev in &rec.trace[..q] {
        match ev {
            Ev::Ack { flush, ok: true, .. } => {
                if let Some(f) = rec.flushes.get(*flush as usize) {
                    acked = acked.max(f.n_records);
                }
            }
            Ev::Mark(Mark::OpBegin(no)) => {
                if let Some(n) = rec.records_after_op.get(*no) {
                    issued = issued.max(*n);
                }
            }
            Ev::Mark(Mark::FlushCall { n_records, .. }) => issued = issued.max(*n_records),
            _ => {}
        }
    }
    Bounds { acked, issued: issued.max(acked) }
}

#[derive(Debug, Clone)]
pub enum Outcome {
    /// open succeeded and shows exactly the model state after `i` accepted records
    Prefix(usize),
    /// open succeeded with a state that is no prefix state
    NoPrefix(Box<Snapshot>),
    /// open succeeded but reading failed
    ReadErr(String),
    Err(String),
    Panic(String),
}

/// Open an image with the real store and classify what it shows.
pub fn open_image(img: &Image, cfg: &CfgSpec, model: &Model, hi: usize) -> Outcome {
    let dir = fresh_dir("img");
    let threads0 = crate::trace::nr_threads();
    let out = (|| {
        if let Err(e) = shadowfs::write_image(&dir, img) {
            crate::driver::inconclusive(format!("cannot materialise image: {e}"));
        }
        let config = Arc::new(cfg.to_config(&dir));
        let res = catch_unwind(AssertUnwindSafe(|| RaftLog::<VT>::open(config)));
        let rl = match res {
            Ok(Ok(rl)) => rl,
            Ok(Err(e)) => return Outcome::Err(e.to_string()),
            Err(p) => return Outcome::Panic(format!("{} ({})", panic_msg(&p), crate::props::last_panic_location())),
        };
        let snap = match catch_unwind(AssertUnwindSafe(|| observe(&rl))) {
            Ok(Ok(s)) => s,
            Ok(Err(e)) => return Outcome::ReadErr(e),
            Err(p) => return Outcome::Panic(format!("read after open: {}", panic_msg(&p))),
        };
        drop(rl);
        let hi = hi.min(model.prefix.len() - 1);
        for i in (0..=hi).rev() {
            if model.prefix[i] == snap {
                return Outcome::Prefix(i);
            }
        }
        for i in hi + 1..model.prefix.len() {
            if model.prefix[i] == snap {
                return Outcome::Prefix(i);
            }
        }
        Outcome::NoPrefix(Box::new(snap))
    })();
    // the dropped store's worker must be gone before anything else starts threads
    if !crate::trace::wait_threads(threads0, crate::driver::WATCHDOG) {
        crate::driver::inconclusive("worker of an image open did not exit");
    }
    remove_dir(&dir);
    out
}

/// Input class of an image, computed with the reference decoder (and, when the expected
/// journal layout is known, with it: that tells "the previous chunk lacks its tail" apart from
/// "a whole chunk file is missing").
pub fn image_class(img: &Image, layout: Option<&crate::driver::Layout>) -> Option<&'static str> {
    let files = shadowfs::ordered(img);
    for w in files.windows(2) {
        let (a_off, _, a) = &w[0];
        let (b_off, _, _) = &w[1];
        let valid = refcodec::parse_chunk(a).valid_len() as u64;
        if a_off + valid != *b_off {
            if let Some(l) = layout {
                // the file that follows `a` in the expected journal
                let next = l.chunks.iter().position(|c| c.start == *a_off).and_then(|i| l.chunks.get(i + 1)).map(|c| c.start);
                if next != Some(*b_off) {
                    return Some("chunk-file-missing");
                }
            }
            return Some("previous-chunk-tail-missing");
        }
    }
    if let Some((_, _, last)) = files.last() {
        if refcodec::parse_chunk(last).recs.is_empty() {
            return Some("newest-chunk-without-complete-record");
        }
    }
    None
}

pub fn image_hash(img: &Image) -> u64 {
    let mut h = 0u64;
    for (n, d) in img {
        for b in n.bytes() {
            h = mix(h, b as u64);
        }
        h = mix(h, d.len() as u64);
        // hash content in 8-byte words
        for c in d.chunks(8) {
            let mut w = [0u8; 8];
            w[..c.len()].copy_from_slice(c);
            h = mix(h, u64::from_le_bytes(w));
        }
    }
    h
}

#[derive(Debug, Clone)]
pub struct CrashImage {
    /// events completed before the crash
    pub q: usize,
    pub kind: &'static str,
    pub desc: String,
    pub img: Image,
    /// process-crash images with unsynced bytes: what a later power loss would still find
    pub durable: Option<Image>,
}

/// Enumerate crash images of a recording. `budget` bounds the sampled power-loss images per
/// crash point; process-crash images are always complete.
pub fn enumerate_images(rec: &Recorded, init: Shadow, sel: u64, per_point: usize, exhaustive: bool, mut f: impl FnMut(CrashImage) -> Result<(), Fail>) -> Result<(), Fail> {
    let mut sh = init;
    let n = rec.trace.len();
    let mut seen: BTreeSet<u64> = BTreeSet::new();
    for q in 0..=n {
        // state after q events
        let interesting = q == n || !matches!(rec.trace[q], Ev::Mark(_) | Ev::Pread { .. });
        // crash points right before a real event (or at the very end)
        if interesting {
            // (1) process crash
            let img = sh.process_image(&rec.names);
            if seen.insert(image_hash(&img)) {
                let durable = if sh.dirty_files().is_empty() { None } else { Some(sh.durable_image(&rec.names)) };
                f(CrashImage { q, kind: "process", desc: "all completed calls kept".into(), img, durable })?;
            }
            // (2) inside the next write
            if q < n {
                if let Ev::Write { file, off, data, .. } = &rec.trace[q] {
                    let len = data.len();
                    let mut ks: Vec<usize> = vec![1, len / 2, len.saturating_sub(1)];
                    let p = refcodec::parse_chunk(data);
                    for b in p.boundaries() {
                        ks.push(b);
                        ks.push(b + 1);
                        ks.push(b.saturating_sub(1));
                        ks.push(b + 4);
                    }
                    if exhaustive && len <= 600 {
                        ks.extend(1..len);
                    }
                    ks.sort();
                    ks.dedup();
                    for k in ks {
                        if k == 0 || k >= len {
                            continue;
                        }
                        let mut s2 = sh.clone();
                        s2.apply(q, &Ev::Write { file: *file, off: *off, data: data[..k].to_vec(), tid: 0 });
                        let img = s2.process_image(&rec.names);
                        if seen.insert(image_hash(&img)) {
                            f(CrashImage { q, kind: "process-in-write", desc: format!("first {k} of {len} bytes of the write in progress applied"), img, durable: None })?;
                        }
                    }
                }
            }
            // (3) power loss
            let dirty = sh.dirty_files();
            if !dirty.is_empty() {
                let img = sh.durable_image(&rec.names);
                if seen.insert(image_hash(&img)) {
                    f(CrashImage { q, kind: "power", desc: "only synced bytes survive".into(), img, durable: None })?;
                }
                let vars: Vec<(usize, Vec<Variant>)> = dirty.iter().map(|i| (*i, power_variants(&sh.files[*i], exhaustive))).collect();
                let total: usize = vars.iter().fold(1usize, |a, v| a.saturating_mul(v.1.len()));
                let mut emit = |choice: Vec<usize>| -> Result<(), Fail> {
                    let mut img = sh.process_image(&rec.names);
                    let mut desc = String::new();
                    for (j, (fi, vs)) in vars.iter().enumerate() {
                        let v = &vs[choice[j]];
                        img.insert(rec.names[*fi].clone(), materialise(&sh.files[*fi], v));
                        desc.push_str(&format!("{}: {:?} (synced {} of {}); ", rec.names[*fi], v, sh.files[*fi].durable.len(), sh.files[*fi].content.len()));
                    }
                    if seen.insert(image_hash(&img)) {
                        f(CrashImage { q, kind: "power", desc, img, durable: None })?;
                    }
                    Ok(())
                };
                if total <= per_point {
                    // all combinations
                    let mut idx = vec![0usize; vars.len()];
                    loop {
                        emit(idx.clone())?;
                        let mut k = 0;
                        loop {
                            if k == idx.len() {
                                break;
                            }
                            idx[k] += 1;
                            if idx[k] < vars[k].1.len() {
                                break;
                            }
                            idx[k] = 0;
                            k += 1;
                        }
                        if k == idx.len() {
                            break;
                        }
                    }
                } else {
                    for j in 0..per_point {
                        let choice: Vec<usize> = vars.iter().enumerate().map(|(x, v)| (mix(mix(sel, q as u64), (j * 31 + x) as u64) % v.1.len() as u64) as usize).collect();
                        emit(choice)?;
                    }
                }
            }
        }
        if q < n {
            sh.apply(q, &rec.trace[q]);
        }
    }
    Ok(())
}

/// Trace the recovery of `img` itself and return the recording (for crash-during-recovery).
///
/// `durable` = what of each file had been synced when the image was taken (a process crash
/// leaves unsynced bytes in the page cache: the recovering process sees them, a later power loss
/// still loses them); `None` = everything in the image is durable (image taken after a power loss).
pub fn record_recovery(img: &Image, durable: Option<&Image>, cfg: &CfgSpec, outer: &Recorded) -> Option<(Recorded, Shadow)> {
    let dir = fresh_dir("rcv");
    shadowfs::write_image(&dir, img).ok()?;
    crate::trace::begin(&dir);
    let res = Run::attach(&dir, cfg, Snapshot::default(), false);
    if let Ok(mut run) = res {
        run.finish();
    }
    let ctl = crate::trace::end();
    remove_dir(&dir);
    let mut init = Shadow::new(ctl.names.len());
    for (id, name) in ctl.names.iter().enumerate() {
        if let Some(d) = img.get(name) {
            let dur = durable.and_then(|m| m.get(name)).unwrap_or(d);
            init.files[id] = SFile { exists: true, content: d.clone(), durable: dur.clone(), ever_created: true, ..Default::default() };
        }
    }
    // files of the image that recovery never touched keep their place too
    let mut names = ctl.names.clone();
    for (name, d) in img {
        if !names.contains(name) {
            names.push(name.clone());
            let dur = durable.and_then(|m| m.get(name)).unwrap_or(d);
            init.files.push(SFile { exists: true, content: d.clone(), durable: dur.clone(), ever_created: true, ..Default::default() });
        }
    }
    let rec = Recorded {
        trace: ctl.trace,
        names,
        model: outer.model.clone(),
        flushes: vec![],
        records_after_op: vec![],
        classes: Default::default(),
        excluded: 0,
        faults_hit: 0,
        hard_faults_hit: 0,
        layout: None,
    };
    Some((rec, init))
}


pub fn describe_image(img: &Image) -> String {
    let mut s = String::new();
    for (off, name, data) in shadowfs::ordered(img) {
        let p = refcodec::parse_chunk(data);
        s.push_str(&format!("{} ({} bytes, {} complete records ending at {}, stop {:?}); ", name, data.len(), p.recs.len(), off + p.valid_len() as u64, p.stop));
    }
    s
}
