//! C06 with a *partially ordered* vote type.
//!
//! `Types::Vote` only has to be `PartialOrd` (Raft implementations use votes where two votes of
//! the same term for different nodes are incomparable). A vote that is not `>=` the stored one —
//! smaller **or incomparable** — is refused, and a refused write must leave no trace. The main
//! harness types use totally ordered `(term, node)` votes; this module runs the same oracle on
//! a second `Types` whose vote order is partial, driven by a small proptest of its own.

use std::io;
use std::sync::mpsc::sync_channel;
use std::sync::mpsc::SyncSender;
use std::sync::Arc;

use proptest::collection::vec;
use proptest::prelude::*;
use proptest::test_runner::Config;
use proptest::test_runner::RngAlgorithm;
use proptest::test_runner::TestCaseError;
use proptest::test_runner::TestError;
use proptest::test_runner::TestRng;
use proptest::test_runner::TestRunner;
use raft_log::api::raft_log_writer::RaftLogWriter;
use raft_log::RaftLog;

use crate::driver::fresh_dir;
use crate::driver::remove_dir;
use crate::driver::Fail;

/// (term, node); same term + different node = incomparable.
#[derive(Debug, Clone, Copy, PartialEq, Eq, Default)]
pub struct PVote {
    pub term: u64,
    pub node: u64,
}

impl PartialOrd for PVote {
    fn partial_cmp(&self, o: &Self) -> Option<std::cmp::Ordering> {
        if self.term != o.term {
            Some(self.term.cmp(&o.term))
        } else if self.node == o.node {
            Some(std::cmp::Ordering::Equal)
        } else {
            None
        }
    }
}

impl raft_log::codeq::Encode for PVote {
    fn encode<W: io::Write>(&self, mut w: W) -> Result<usize, io::Error> {
        w.write_all(&self.term.to_be_bytes())?;
        w.write_all(&self.node.to_be_bytes())?;
        Ok(16)
    }
}

impl raft_log::codeq::Decode for PVote {
    fn decode<R: io::Read>(mut r: R) -> Result<Self, io::Error> {
        let mut a = [0u8; 8];
        let mut b = [0u8; 8];
        r.read_exact(&mut a)?;
        r.read_exact(&mut b)?;
        Ok(PVote { term: u64::from_be_bytes(a), node: u64::from_be_bytes(b) })
    }
}

#[derive(Debug, Clone, Default, PartialEq, Eq)]
pub struct PT;

impl raft_log::Types for PT {
    type LogId = (u64, u64);
    type LogPayload = String;
    type Vote = PVote;
    type Callback = SyncSender<Result<(), io::Error>>;
    type UserData = String;
    fn log_index(log_id: &Self::LogId) -> u64 {
        log_id.1
    }
    fn payload_size(payload: &Self::LogPayload) -> u64 {
        payload.len() as u64
    }
}

#[derive(Debug, Clone, PartialEq)]
struct Obs {
    vote: Option<PVote>,
    last: Option<(u64, u64)>,
    committed: Option<(u64, u64)>,
    entries: Vec<((u64, u64), String)>,
    chunks: Vec<(u64, u64, u64)>,
    on_disk: u64,
    cache: (u64, u64),
}

fn obs(rl: &RaftLog<PT>) -> Result<Obs, String> {
    let st = rl.log_state();
    let mut entries = vec![];
    for e in rl.read(0, u64::MAX) {
        entries.push(e.map_err(|e| e.to_string())?);
    }
    let s = rl.stat();
    let mut chunks: Vec<(u64, u64, u64)> = s.closed_chunks.iter().map(|c| (c.chunk_id.0, c.records_count, c.global_end)).collect();
    chunks.push((s.open_chunk.chunk_id.0, s.open_chunk.records_count, s.open_chunk.global_end));
    Ok(Obs { vote: st.vote().copied(), last: st.last().copied(), committed: st.committed().copied(), entries, chunks, on_disk: rl.on_disk_size(), cache: (s.payload_cache_item_count, s.payload_cache_size) })
}

fn flush_wait(rl: &mut RaftLog<PT>) -> Result<(), String> {
    let (tx, rx) = sync_channel(1);
    rl.flush(Some(tx)).map_err(|e| format!("flush() returned {e}"))?;
    match rx.recv_timeout(std::time::Duration::from_secs(20)) {
        Ok(Ok(())) => {}
        Ok(Err(e)) => return Err(format!("flush acknowledged with an error: {e}")),
        Err(_) => crate::driver::inconclusive("flush acknowledgement did not arrive (partial-order vote scenario)"),
    }
    rl.wait_worker_idle();
    Ok(())
}

/// One history. `ops`: (kind, a, b).
fn one(ops: &[(u8, u8, u8)]) -> Result<(u64, u64), Fail> {
    let dir = fresh_dir("pvote");
    let cfg = Arc::new(raft_log::Config { dir: dir.clone(), chunk_max_records: Some(3), read_buffer_size: Some(4096), ..Default::default() });
    let threads0 = crate::trace::nr_threads();
    let r = (|| -> Result<(u64, u64), Fail> {
        let mut rl = RaftLog::<PT>::open(cfg.clone()).map_err(|e| Fail::new("open-fresh", e.to_string()))?;
        let mut vote: Option<PVote> = None;
        let mut last: Option<(u64, u64)> = None;
        let mut committed: Option<(u64, u64)> = None;
        let mut entries: Vec<((u64, u64), String)> = vec![];
        let mut refused = 0u64;
        let mut incomparable = 0u64;
        for (i, (k, a, b)) in ops.iter().enumerate() {
            match k % 6 {
                0 | 1 => {
                    // a vote: same / next term, node a%3
                    let cur = vote.unwrap_or(PVote { term: 1, node: 0 });
                    let v = match *b % 4 {
                        0 | 1 => PVote { term: cur.term, node: (*a % 3) as u64 },
                        2 => PVote { term: cur.term + 1, node: (*a % 3) as u64 },
                        _ => PVote { term: cur.term.saturating_sub(1), node: (*a % 3) as u64 },
                    };
                    let ok = match vote {
                        None => true,
                        Some(c) => v.partial_cmp(&c).map(|o| o != std::cmp::Ordering::Less).unwrap_or(false),
                    };
                    let before = obs(&rl).map_err(|e| Fail::new("read-error", e))?;
                    let res = rl.save_vote(v);
                    if ok {
                        res.map_err(|e| Fail::new("pvote/legal-vote-refused", format!("op {i}: save_vote({v:?}) over {:?} must be accepted: {e}", vote)))?;
                        vote = Some(v);
                    } else {
                        refused += 1;
                        if vote.map(|c| v.partial_cmp(&c).is_none()).unwrap_or(false) {
                            incomparable += 1;
                        }
                        if res.is_ok() {
                            return Err(Fail::new("pvote/reject-accepted", format!("op {i}: save_vote({v:?}) over {:?} (not >=) returned Ok", vote)));
                        }
                        let after = obs(&rl).map_err(|e| Fail::new("read-error", e))?;
                        if after != before {
                            return Err(Fail::new(
                                "pvote/rejected-vote-left-trace",
                                format!("op {i}: save_vote({v:?}) over {:?} was refused with an error, but the store changed: before {:?}, after {:?}", vote, before, after),
                            ));
                        }
                    }
                }
                2 | 3 => {
                    let id = match last {
                        Some((t, ix)) => (t + (*b % 2) as u64, ix + 1),
                        None => (1, 0),
                    };
                    let p = format!("p{}-{}", i, a);
                    rl.append([(id, p.clone())]).map_err(|e| Fail::new("pvote/legal-write-refused", format!("op {i}: append({id:?}): {e}")))?;
                    last = Some(id);
                    entries.push((id, p));
                }
                4 => {
                    if let Some(l) = last {
                        if Some(l) >= committed {
                            rl.commit(l).map_err(|e| Fail::new("pvote/legal-write-refused", format!("op {i}: commit({l:?}): {e}")))?;
                            committed = Some(l);
                        }
                    }
                }
                _ => {
                    flush_wait(&mut rl).map_err(|e| Fail::new("pvote/flush", format!("op {i}: {e}")))?;
                    if *a % 2 == 0 {
                        drop(rl);
                        crate::trace::wait_threads(threads0, crate::driver::WATCHDOG);
                        rl = RaftLog::<PT>::open(cfg.clone()).map_err(|e| Fail::new("pvote/clean-reopen-failed", format!("op {i}: open after flush + drop failed: {e} (refused votes so far: {refused})")))?;
                    }
                }
            }
            let o = obs(&rl).map_err(|e| Fail::new("read-error", e))?;
            if o.vote != vote || o.last != last || o.committed != committed || o.entries != entries {
                return Err(Fail::new("pvote/state-mismatch", format!("op {i}: store shows vote {:?} last {:?} committed {:?} / {} entries, expected vote {:?} last {:?} committed {:?} / {} entries", o.vote, o.last, o.committed, o.entries.len(), vote, last, committed, entries.len())));
            }
        }
        flush_wait(&mut rl).map_err(|e| Fail::new("pvote/flush", e))?;
        drop(rl);
        crate::trace::wait_threads(threads0, crate::driver::WATCHDOG);
        let rl = RaftLog::<PT>::open(cfg.clone()).map_err(|e| Fail::new("pvote/clean-reopen-failed", format!("final open after flush + drop failed: {e} (refused votes: {refused}, of them incomparable: {incomparable})")))?;
        let o = obs(&rl).map_err(|e| Fail::new("read-error", e))?;
        if o.vote != vote || o.last != last || o.committed != committed || o.entries != entries {
            return Err(Fail::new("pvote/reopen-differs", format!("after the final restart the store shows vote {:?} last {:?} / {} entries, expected vote {:?} last {:?} / {} entries", o.vote, o.last, o.entries.len(), vote, last, entries.len())));
        }
        drop(rl);
        Ok((refused, incomparable))
    })();
    crate::trace::wait_threads(threads0, crate::driver::WATCHDOG);
    remove_dir(&dir);
    r
}

/// Run `cases` generated histories; returns (histories, refused votes, incomparable votes).
pub fn campaign(seed: u64, cases: u32) -> Result<(u64, u64, u64), Fail> {
    let mut sb = [0u8; 32];
    for i in 0..4 {
        sb[i * 8..i * 8 + 8].copy_from_slice(&crate::ops::mix(seed, 0x9e77 + i as u64).to_le_bytes());
    }
    let mut runner = TestRunner::new_with_rng(Config { cases, failure_persistence: None, max_shrink_iters: 400, ..Config::default() }, TestRng::from_seed(RngAlgorithm::ChaCha, &sb));
    let strat = vec((0u8..6, any::<u8>(), any::<u8>()), 1..28);
    let stats = std::cell::RefCell::new((0u64, 0u64, 0u64, None::<Fail>));
    let res = runner.run(&strat, |ops| match one(&ops) {
        Ok((r, inc)) => {
            let mut s = stats.borrow_mut();
            s.0 += 1;
            s.1 += r;
            s.2 += inc;
            Ok(())
        }
        Err(f) => {
            stats.borrow_mut().3 = Some(f.clone());
            Err(TestCaseError::fail(format!("{}: {}", f.key, f.msg)))
        }
    });
    let (n, r, inc, last) = stats.into_inner();
    match res {
        Ok(()) => Ok((n, r, inc)),
        Err(TestError::Fail(_, ops)) => {
            let f = one(&ops).err().or(last).unwrap_or_else(|| Fail::new("pvote/flaky", "minimal history passed when re-run"));
            Err(Fail::new(f.key, format!("partially ordered votes (same term, other node = incomparable), minimal history {:?} [kind%6: 0,1 vote(node a%3, term same/same/+1/-1 by b%4); 2,3 append; 4 commit; 5 flush(+restart if a even)]: {}", ops, f.msg)))
        }
        Err(TestError::Abort(e)) => Err(Fail::new("pvote/abort", e.to_string())),
    }
}
