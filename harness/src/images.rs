//! Settled on-disk images produced by generated histories (for C09 / C10), and an
//! in-place trial directory that is restored after every mutated open.

use std::panic::catch_unwind;
use std::panic::AssertUnwindSafe;
use std::sync::Arc;

use raft_log::Dump;
use raft_log::DumpApi;
use raft_log::RaftLog;

use crate::driver::fresh_dir;
use crate::driver::observe;
use crate::driver::panic_msg;
use crate::driver::remove_dir;
use crate::driver::Fail;
use crate::driver::Layout;
use crate::model::Model;
use crate::model::Snapshot;
use crate::ops::Case;
use crate::ops::CfgSpec;
use crate::ops::OpSpec;
use crate::props::with_run;
use crate::shadowfs;
use crate::shadowfs::Image;
use crate::types::VT;

pub struct Settled {
    pub img: Image,
    pub model: Model,
    pub layout: Layout,
    pub classes: crate::driver::Classes,
}

/// Run the history, flush, wait for the acknowledgement and the worker, copy the files.
pub fn settled_image(case: &Case) -> Result<Settled, Fail> {
    let (r, _ctl) = with_run(&case.cfg, false, &[], |run| {
        run.avoid_low_reappend = true;
        for op in &case.ops {
            match op {
                OpSpec::Reject { .. } | OpSpec::Probe(_) | OpSpec::DropReopen { .. } | OpSpec::Readers { .. } | OpSpec::Read { .. } | OpSpec::Steps(_) => continue,
                OpSpec::Reopen { cfg } => run.clean_reopen(cfg)?,
                _ => {
                    run.exec(op)?;
                }
            }
        }
        run.flush_and_settle()?;
        let img = shadowfs::read_image(&run.dir).map_err(|e| Fail::new("harness-io", e.to_string()))?;
        Ok(Settled { img, model: run.model.clone(), layout: run.layout.clone().expect("layout"), classes: run.classes.clone() })
    })?;
    Ok(r)
}

#[derive(Debug)]
pub enum Trial {
    Ok(Snapshot),
    ReadErr(String),
    Err(String),
    Panic(String),
}

/// A directory holding a base image; every trial patches it, opens it, and restores it.
pub struct TrialDir {
    pub dir: String,
    pub base: Image,
}

impl TrialDir {
    pub fn new(base: &Image) -> TrialDir {
        let dir = fresh_dir("trial");
        shadowfs::write_image(&dir, base).expect("write base image");
        TrialDir { dir, base: base.clone() }
    }

    /// Replace the content of one file (or remove it with `None`).
    pub fn set_file(&self, name: &str, data: Option<&[u8]>) {
        let p = format!("{}/{}", self.dir, name);
        match data {
            Some(d) => std::fs::write(&p, d).expect("write trial file"),
            None => {
                let _ = std::fs::remove_file(&p);
            }
        }
    }

    pub fn current(&self) -> Image {
        shadowfs::read_image(&self.dir).expect("read trial dir")
    }

    /// Open with the real store; on success observe state and entries (entries are read back
    /// from disk when the cache is configured small) and take an offline dump.
    pub fn open(&self, cfg: &CfgSpec) -> Trial {
        let threads0 = crate::trace::nr_threads();
        let config = Arc::new(cfg.to_config(&self.dir));
        let res = catch_unwind(AssertUnwindSafe(|| RaftLog::<VT>::open(config.clone())));
        let out = match res {
            Ok(Ok(rl)) => {
                let r = catch_unwind(AssertUnwindSafe(|| {
                    let s = observe(&rl);
                    let mut d = rl.dump_data();
                    let n = d.iter().filter(|x| x.is_err()).count();
                    drop(rl);
                    (s, n)
                }));
                match r {
                    Ok((Ok(s), 0)) => {
                        // offline dump must work on what open() accepted
                        let d = catch_unwind(AssertUnwindSafe(|| Dump::<VT>::new(config.clone()).and_then(|d| d.write_to_string())));
                        match d {
                            Ok(Ok(_)) => Trial::Ok(s),
                            Ok(Err(e)) => Trial::ReadErr(format!("offline Dump failed: {e}")),
                            Err(p) => Trial::Panic(format!("offline Dump: {}", panic_msg(&p))),
                        }
                    }
                    Ok((Ok(_), n)) => Trial::ReadErr(format!("dump_data().iter() returned {n} errors")),
                    Ok((Err(e), _)) => Trial::ReadErr(e),
                    Err(p) => Trial::Panic(format!("reading after open: {} ({})", panic_msg(&p), crate::props::last_panic_location())),
                }
            }
            Ok(Err(e)) => Trial::Err(e.to_string()),
            Err(p) => Trial::Panic(format!("{} ({})", panic_msg(&p), crate::props::last_panic_location())),
        };
        if !crate::trace::wait_threads(threads0, crate::driver::WATCHDOG) {
            crate::driver::inconclusive("worker of a trial open did not exit");
        }
        out
    }

    /// Put the directory back to the base image.
    pub fn restore(&self) {
        let cur = self.current();
        for name in cur.keys() {
            if !self.base.contains_key(name) {
                self.set_file(name, None);
            }
        }
        for (name, data) in &self.base {
            if cur.get(name) != Some(data) {
                self.set_file(name, Some(data));
            }
        }
    }
}

impl Drop for TrialDir {
    fn drop(&mut self) {
        remove_dir(&self.dir);
    }
}
