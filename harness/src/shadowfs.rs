//! Shadow file system: replays an I/O trace prefix and derives the post-crash images the
//! crash model allows.
//!
//! * process crash: every completed call is kept (plus, for a `write` in progress, any
//!   prefix of its bytes);
//! * power loss: per file, the content at the last successful sync is kept, followed by
//!   either any prefix of the bytes appended since, or those bytes up to a record boundary
//!   followed by L >= 1 zero bytes. An unsynced `ftruncate` may or may not have happened.
//!
//! File creation and unlink are kept as completed calls (the crash model of the property
//! does not include lost directory entries).

use std::collections::BTreeMap;

use crate::refcodec;
use crate::trace::Ev;

#[derive(Debug, Clone, Default)]
pub struct SFile {
    pub exists: bool,
    pub content: Vec<u8>,
    /// Content at the last successful sync (or at creation: empty).
    pub durable: Vec<u8>,
    /// Position in the trace of the last successful sync.
    pub last_sync_pos: Option<usize>,
    /// Position in the trace of the last write.
    pub last_write_pos: Option<usize>,
    pub ever_created: bool,
}

impl SFile {
    /// `true` if `content` only appended to `durable`.
    pub fn append_only_since_sync(&self) -> bool {
        self.content.len() >= self.durable.len() && self.content[..self.durable.len()] == self.durable[..]
    }
    pub fn synced_len(&self) -> usize {
        if self.append_only_since_sync() {
            self.durable.len()
        } else {
            // common prefix
            self.content.iter().zip(self.durable.iter()).take_while(|(a, b)| a == b).count()
        }
    }
}

#[derive(Debug, Clone, Default)]
pub struct Shadow {
    pub files: Vec<SFile>,
}

pub type Image = BTreeMap<String, Vec<u8>>;

impl Shadow {
    pub fn new(n_files: usize) -> Self {
        Shadow { files: vec![SFile::default(); n_files] }
    }

    pub fn file_mut(&mut self, id: u32) -> &mut SFile {
        let i = id as usize;
        if self.files.len() <= i {
            self.files.resize(i + 1, SFile::default());
        }
        &mut self.files[i]
    }

    pub fn apply(&mut self, pos: usize, ev: &Ev) {
        match ev {
            Ev::Open { file, create, ok, .. } => {
                if *ok && *create {
                    let f = self.file_mut(*file);
                    if !f.exists {
                        *f = SFile { exists: true, ever_created: true, ..Default::default() };
                    }
                }
            }
            Ev::Write { file, off, data, .. } => {
                let f = self.file_mut(*file);
                let off = *off as usize;
                if f.content.len() < off {
                    f.content.resize(off, 0);
                }
                let end = off + data.len();
                if f.content.len() < end {
                    f.content.resize(end, 0);
                }
                f.content[off..end].copy_from_slice(data);
                f.last_write_pos = Some(pos);
            }
            Ev::Sync { file, ok, .. } => {
                if *ok {
                    let f = self.file_mut(*file);
                    f.durable = f.content.clone();
                    f.last_sync_pos = Some(pos);
                }
            }
            Ev::Truncate { file, len, .. } => {
                let f = self.file_mut(*file);
                f.content.resize(*len as usize, 0);
            }
            Ev::Unlink { file, ok, .. } => {
                if *ok {
                    let f = self.file_mut(*file);
                    f.exists = false;
                    f.content.clear();
                    f.durable.clear();
                }
            }
            Ev::Rename { from, to, ok, .. } => {
                if *ok && from != to {
                    // directory entries are not lost in the crash model: the file is the same
                    // file under its new name, what was synced of it stays synced
                    let src = std::mem::take(self.file_mut(*from));
                    *self.file_mut(*to) = src;
                }
            }
            _ => {}
        }
    }

    pub fn replay(trace: &[Ev], upto: usize) -> Shadow {
        let mut s = Shadow::default();
        for (i, ev) in trace[..upto].iter().enumerate() {
            s.apply(i, ev);
        }
        s
    }

    /// Image after a process crash: all completed calls kept.
    pub fn process_image(&self, names: &[String]) -> Image {
        let mut m = Image::new();
        for (i, f) in self.files.iter().enumerate() {
            if f.exists {
                m.insert(names[i].clone(), f.content.clone());
            }
        }
        m
    }

    /// Pessimistic power-loss image: only synced bytes survive.
    pub fn durable_image(&self, names: &[String]) -> Image {
        let mut m = Image::new();
        for (i, f) in self.files.iter().enumerate() {
            if f.exists {
                m.insert(names[i].clone(), f.durable.clone());
            }
        }
        m
    }

    /// Ids of existing files that hold unsynced changes.
    pub fn dirty_files(&self) -> Vec<usize> {
        self.files
            .iter()
            .enumerate()
            .filter(|(_, f)| f.exists && f.content != f.durable)
            .map(|(i, _)| i)
            .collect()
    }
}

pub const ZERO_LENS: [usize; 10] = [1, 2, 7, 8, 19, 20, 27, 28, 64, 1024];

/// All power-loss variants of one file, described symbolically so that callers can count,
/// sample and materialise them.
#[derive(Debug, Clone, PartialEq, Eq)]
pub enum Variant {
    /// durable + the first `k` unsynced bytes
    Keep(usize),
    /// durable + unsynced bytes up to absolute offset `b` (a record boundary) + `l` zero bytes
    Zero(usize, usize),
    /// the durable content as it was (an unsynced truncate did not reach the disk)
    Durable,
    /// the current content
    Current,
}

pub fn power_variants(f: &SFile, exhaustive: bool) -> Vec<Variant> {
    let mut v = vec![];
    if !f.append_only_since_sync() {
        v.push(Variant::Durable);
        v.push(Variant::Current);
        return v;
    }
    let d = f.durable.len();
    let n = f.content.len() - d;
    if n == 0 {
        v.push(Variant::Current);
        return v;
    }
    let parsed = refcodec::parse_chunk(&f.content);
    let bounds: Vec<usize> = parsed.boundaries().into_iter().filter(|b| *b >= d).collect();
    if exhaustive && n <= 4096 {
        for k in 0..=n {
            v.push(Variant::Keep(k));
        }
    } else {
        let mut ks = vec![0, n, 1, n - 1, n / 2];
        for b in &bounds {
            let k = b - d;
            ks.push(k);
            if k > 0 {
                ks.push(k - 1);
            }
            if k < n {
                ks.push(k + 1);
            }
            if k + 4 < n {
                ks.push(k + 4);
            }
            if k + 20 < n {
                ks.push(k + 20);
            }
        }
        ks.sort();
        ks.dedup();
        for k in ks {
            if k <= n {
                v.push(Variant::Keep(k));
            }
        }
    }
    for b in &bounds {
        if *b >= f.content.len() {
            continue;
        }
        let mut ls: Vec<usize> = ZERO_LENS.to_vec();
        ls.push(f.content.len() - b);
        ls.push(33 * 1024);
        ls.push(64 * 1024 + 1);
        ls.sort();
        ls.dedup();
        for l in ls {
            v.push(Variant::Zero(*b, l));
        }
    }
    v
}

pub fn materialise(f: &SFile, v: &Variant) -> Vec<u8> {
    match v {
        Variant::Keep(k) => f.content[..f.durable.len() + k].to_vec(),
        Variant::Zero(b, l) => {
            let mut c = f.content[..*b].to_vec();
            c.resize(b + l, 0);
            c
        }
        Variant::Durable => f.durable.clone(),
        Variant::Current => f.content.clone(),
    }
}

pub fn write_image(dir: &str, img: &Image) -> std::io::Result<()> {
    std::fs::create_dir_all(dir)?;
    for (name, data) in img {
        std::fs::write(format!("{}/{}", dir, name), data)?;
    }
    Ok(())
}

pub fn read_image(dir: &str) -> std::io::Result<Image> {
    let mut m = Image::new();
    for e in std::fs::read_dir(dir)? {
        let e = e?;
        let name = e.file_name().to_string_lossy().to_string();
        if name.starts_with("r-") && name.ends_with(".wal") {
            m.insert(name, std::fs::read(e.path())?);
        }
    }
    Ok(m)
}

/// Every regular file of the directory except the lock file (the self-check of the trace).
pub fn read_image_all(dir: &str) -> std::io::Result<Image> {
    let mut m = Image::new();
    for e in std::fs::read_dir(dir)? {
        let e = e?;
        let name = e.file_name().to_string_lossy().to_string();
        if name != "LOCK" && name != "witness" && e.file_type().map(|t| t.is_file()).unwrap_or(false) {
            m.insert(name, std::fs::read(e.path())?);
        }
    }
    Ok(m)
}

/// Chunk files of an image in journal order: (global start offset, name, bytes).
pub fn ordered(img: &Image) -> Vec<(u64, &String, &Vec<u8>)> {
    let mut v: Vec<(u64, &String, &Vec<u8>)> =
        img.iter().filter_map(|(n, d)| refcodec::parse_chunk_file_name(n).map(|o| (o, n, d))).collect();
    v.sort_by_key(|x| x.0);
    v
}
