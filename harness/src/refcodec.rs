//! Independent reference codec for the concrete types (big-endian fields + crc32).
//!
//! Record  = u32 type | body | u64 checksum (crc32 of type+body, zero-extended)
//! LogId   = u64 term | u64 index          Vote = u64 term | u64 node
//! String  = u32 len | utf8                Option<X> = u8 0 | u8 1 X
//! State   = u8 1 | Option vote | Option last | Option committed | Option purged | Option user_data
//!
//! Written from the format description, not by calling the crate; used as differential
//! oracle (C11, C12), to find record boundaries inside images (C03, C09, C10) and to classify
//! mutated bytes.

use crate::model::MState;
use crate::model::Rec;

pub fn put_u64(b: &mut Vec<u8>, v: u64) {
    b.extend_from_slice(&v.to_be_bytes());
}
pub fn put_u32(b: &mut Vec<u8>, v: u32) {
    b.extend_from_slice(&v.to_be_bytes());
}
fn put_id(b: &mut Vec<u8>, id: &(u64, u64)) {
    put_u64(b, id.0);
    put_u64(b, id.1);
}
fn put_opt_id(b: &mut Vec<u8>, id: &Option<(u64, u64)>) {
    match id {
        None => b.push(0),
        Some(id) => {
            b.push(1);
            put_id(b, id);
        }
    }
}
fn put_str(b: &mut Vec<u8>, s: &str) {
    put_u32(b, s.len() as u32);
    b.extend_from_slice(s.as_bytes());
}

pub fn encode_state_body(b: &mut Vec<u8>, st: &MState) {
    b.push(1);
    put_opt_id(b, &st.vote);
    put_opt_id(b, &st.last);
    put_opt_id(b, &st.committed);
    put_opt_id(b, &st.purged);
    match &st.user_data {
        None => b.push(0),
        Some(s) => {
            b.push(1);
            put_str(b, s);
        }
    }
}

pub fn type_tag(r: &Rec) -> u32 {
    match r {
        Rec::Vote(_) => 0,
        Rec::Append(..) => 1,
        Rec::Commit(_) => 2,
        Rec::TruncateAfter(_) => 3,
        Rec::PurgeUpto(_) => 4,
        Rec::State(_) => 5,
    }
}

pub fn encode(r: &Rec) -> Vec<u8> {
    let mut b = Vec::new();
    put_u32(&mut b, type_tag(r));
    match r {
        Rec::Vote(v) => put_id(&mut b, v),
        Rec::Append(id, p) => {
            put_id(&mut b, id);
            put_str(&mut b, p);
        }
        Rec::Commit(id) => put_id(&mut b, id),
        Rec::TruncateAfter(id) => put_opt_id(&mut b, id),
        Rec::PurgeUpto(id) => put_id(&mut b, id),
        Rec::State(st) => encode_state_body(&mut b, st),
    }
    let crc = crc32fast::hash(&b) as u64;
    put_u64(&mut b, crc);
    b
}

#[derive(Debug, Clone, PartialEq, Eq)]
pub enum DecErr {
    /// Input ended before the record was complete.
    Eof,
    /// Structurally invalid (unknown type, bad tag, bad version, bad utf8).
    Invalid(&'static str),
    /// Checksum mismatch.
    Checksum,
}

struct Rd<'a> {
    b: &'a [u8],
    p: usize,
}

impl<'a> Rd<'a> {
    fn take(&mut self, n: usize) -> Result<&'a [u8], DecErr> {
        if self.b.len() - self.p < n {
            self.p = self.b.len();
            return Err(DecErr::Eof);
        }
        let s = &self.b[self.p..self.p + n];
        self.p += n;
        Ok(s)
    }
    fn u8(&mut self) -> Result<u8, DecErr> {
        Ok(self.take(1)?[0])
    }
    fn u32(&mut self) -> Result<u32, DecErr> {
        Ok(u32::from_be_bytes(self.take(4)?.try_into().unwrap()))
    }
    fn u64(&mut self) -> Result<u64, DecErr> {
        Ok(u64::from_be_bytes(self.take(8)?.try_into().unwrap()))
    }
    fn id(&mut self) -> Result<(u64, u64), DecErr> {
        Ok((self.u64()?, self.u64()?))
    }
    fn opt_id(&mut self) -> Result<Option<(u64, u64)>, DecErr> {
        match self.u8()? {
            0 => Ok(None),
            1 => Ok(Some(self.id()?)),
            _ => Err(DecErr::Invalid("option tag")),
        }
    }
    fn string(&mut self) -> Result<String, DecErr> {
        let n = self.u32()? as usize;
        let s = self.take(n)?;
        String::from_utf8(s.to_vec()).map_err(|_| DecErr::Invalid("utf8"))
    }
}

/// Decode one record from the start of `b`; returns the record and the bytes consumed.
pub fn decode(b: &[u8]) -> Result<(Rec, usize), DecErr> {
    let mut r = Rd { b, p: 0 };
    let typ = r.u32()?;
    let rec = match typ {
        0 => Rec::Vote(r.id()?),
        1 => {
            let id = r.id()?;
            Rec::Append(id, r.string()?)
        }
        2 => Rec::Commit(r.id()?),
        3 => Rec::TruncateAfter(r.opt_id()?),
        4 => Rec::PurgeUpto(r.id()?),
        5 => {
            let ver = r.u8()?;
            if ver != 1 {
                return Err(DecErr::Invalid("state version"));
            }
            let vote = r.opt_id()?;
            let last = r.opt_id()?;
            let committed = r.opt_id()?;
            let purged = r.opt_id()?;
            let user_data = match r.u8()? {
                0 => None,
                1 => Some(r.string()?),
                _ => return Err(DecErr::Invalid("option tag")),
            };
            Rec::State(MState { vote, last, committed, purged, user_data })
        }
        _ => return Err(DecErr::Invalid("record type")),
    };
    let body_end = r.p;
    let got = r.u64()?;
    let want = crc32fast::hash(&b[..body_end]) as u64;
    if got != want {
        return Err(DecErr::Checksum);
    }
    Ok((rec, r.p))
}

/// A chunk file split into complete records; `ends[i]` = end offset of record i.
#[derive(Debug, Clone, Default)]
pub struct Parsed {
    pub recs: Vec<Rec>,
    pub ends: Vec<usize>,
    /// Why parsing stopped before the end of the buffer, if it did.
    pub stop: Option<DecErr>,
}

impl Parsed {
    pub fn valid_len(&self) -> usize {
        self.ends.last().copied().unwrap_or(0)
    }
    /// Start offsets of each record plus the final end: the record boundaries.
    pub fn boundaries(&self) -> Vec<usize> {
        let mut v = vec![0];
        v.extend(self.ends.iter().copied());
        v
    }
}

pub fn parse_chunk(b: &[u8]) -> Parsed {
    let mut p = Parsed::default();
    let mut off = 0;
    while off < b.len() {
        match decode(&b[off..]) {
            Ok((r, n)) => {
                off += n;
                p.recs.push(r);
                p.ends.push(off);
            }
            Err(e) => {
                p.stop = Some(e);
                break;
            }
        }
    }
    p
}

/// Which field of a record the byte at `pos` (relative to the record start) belongs to.
pub fn field_at(rec: &Rec, len: usize, pos: usize) -> &'static str {
    if pos < 4 {
        return "type";
    }
    if pos >= len - 8 {
        return "checksum";
    }
    let p = pos - 4;
    match rec {
        Rec::Vote(_) | Rec::Commit(_) | Rec::PurgeUpto(_) => "fixed",
        Rec::Append(..) => {
            if p < 16 {
                "fixed"
            } else if p < 20 {
                "length"
            } else {
                "payload"
            }
        }
        Rec::TruncateAfter(_) => {
            if p == 0 {
                "option_tag"
            } else {
                "fixed"
            }
        }
        Rec::State(st) => {
            if p == 0 {
                return "version";
            }
            let mut q = 1;
            for o in [&st.vote, &st.last, &st.committed, &st.purged] {
                if p == q {
                    return "option_tag";
                }
                q += 1;
                if o.is_some() {
                    if p < q + 16 {
                        return "fixed";
                    }
                    q += 16;
                }
            }
            if p == q {
                return "option_tag";
            }
            q += 1;
            if p < q + 4 {
                "length"
            } else {
                "payload"
            }
        }
    }
}

/// `r-` + the offset as 20 zero-padded digits grouped by `_` every three from the right
/// (26 characters) + `.wal` — own formatter, independent of the crate's.
pub fn chunk_file_name(offset: u64) -> String {
    let digits = format!("{:020}", offset);
    let d = digits.as_bytes();
    let mut s = String::from("r-");
    // groups: 2,3,3,3,3,3,3
    s.push(d[0] as char);
    s.push(d[1] as char);
    for g in 0..6 {
        s.push('_');
        for k in 0..3 {
            s.push(d[2 + g * 3 + k] as char);
        }
    }
    s.push_str(".wal");
    s
}

pub fn parse_chunk_file_name(name: &str) -> Option<u64> {
    let s = name.strip_prefix("r-")?.strip_suffix(".wal")?;
    if s.len() != 26 {
        return None;
    }
    let digits: String = s.chars().filter(|c| c.is_ascii_digit()).collect();
    digits.parse::<u64>().ok()
}
