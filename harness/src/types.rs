//! Concrete `Types` used by every check: the same shapes as the crate's own tests
//! ((term,index) log ids, (term,node) votes, String payload / user data), but with a
//! harness-owned callback so that every acknowledgement is a harness event.

use std::io;

use crate::trace;

pub type LogId = (u64, u64);
pub type Vote = (u64, u64);

#[derive(Debug, Clone, Default, PartialEq, Eq)]
pub struct VT;

impl raft_log::Types for VT {
    type LogId = LogId;
    type LogPayload = String;
    type Vote = Vote;
    type Callback = Cb;
    type UserData = String;

    fn log_index(log_id: &Self::LogId) -> u64 {
        log_id.1
    }

    fn payload_size(payload: &Self::LogPayload) -> u64 {
        payload.len() as u64
    }
}

/// Flush callback owned by the harness. `send` consumes it, so the type system already
/// rules out a second call; what remains observable is: called (with which result, at
/// which trace position) or dropped without being called.
pub struct Cb {
    pub flush_id: u64,
    sent: bool,
}

impl Cb {
    pub fn new(flush_id: u64) -> Self {
        Cb { flush_id, sent: false }
    }
}

impl raft_log::Callback for Cb {
    fn send(mut self, res: Result<(), io::Error>) {
        self.sent = true;
        trace::ack(self.flush_id, res.map_err(|e| e.to_string()));
    }
}

impl Drop for Cb {
    fn drop(&mut self) {
        if !self.sent {
            trace::ack_dropped(self.flush_id);
        }
    }
}
