//! C09 — corruption and missing pieces are reported, never silently absorbed.

use std::collections::BTreeMap;

use proptest::strategy::BoxedStrategy;
use serde_json::json;

use crate::driver::Fail;
use crate::images::settled_image;
use crate::images::Trial;
use crate::images::TrialDir;
use crate::ops::case_strategy;
use crate::ops::mix;
use crate::ops::Case;
use crate::ops::CfgSpec;
use crate::ops::Profile;
use crate::refcodec;
use crate::refcodec::DecErr;
use crate::runner::CaseInfo;
use crate::runner::Ctx;
use crate::runner::Prop;
use crate::runner::Tier;
use crate::shadowfs;

pub struct C09;

pub const K_NEWEST: &str = "overrun-to-eof/newest-chunk-silently-truncated";
pub const K_OLDER: &str = "overrun-to-eof/older-chunk-truncated-by-refused-open";

pub fn profile(tier: Tier) -> Profile {
    let mut p = Profile::base(if tier == Tier::Quick { 14 } else { 30 });
    p.min_ops = 3;
    p.w_vote = 3;
    p.w_userdata = 2;
    p.w_commit = 3;
    p.w_truncate = 2;
    p.w_purge = 2;
    p.w_flush = 1;
    p.w_read = 0;
    p.w_reopen = 1;
    p
}

pub fn open_cfg(case: &Case) -> CfgSpec {
    let mut c = case.cfg.clone();
    c.cache_items = Some(0);
    c.cache_cap = Some(0);
    c.trunc = None;
    c
}

/// Payload bytes away from the payload's edges are only mutated in the thorough tier.
fn skip_pos(rec: &crate::model::Rec, rs: usize, re: usize, pos: usize, all: bool) -> bool {
    if all {
        return false;
    }
    if refcodec::field_at(rec, re - rs, pos - rs) != "payload" {
        return false;
    }
    // payload runs up to the checksum
    let pend = re - 8;
    let mut pstart = pos;
    while pstart > rs && refcodec::field_at(rec, re - rs, pstart - 1 - rs) == "payload" {
        pstart -= 1;
    }
    !(pos < pstart + 4 || pos + 4 >= pend)
}

fn values(orig: u8, all: bool) -> Vec<u8> {
    let mut v: Vec<u8> = if all { (0..=255u8).collect() } else { (0..8).map(|b| orig ^ (1 << b)).chain([0x00, 0xFF, orig.wrapping_add(1), orig.wrapping_sub(1)]).collect() };
    v.sort();
    v.dedup();
    v.retain(|x| *x != orig);
    v
}

impl Prop for C09 {
    fn id(&self) -> &'static str {
        "C09"
    }
    fn level(&self) -> &'static str {
        "fault_enumeration"
    }
    fn rule(&self) -> String {
        "proptest generates (config, short history with every record kind, clean restarts); the history is flushed, acknowledged and the worker idle, then the chunk files are copied. Enumerated inside each image: every byte offset of every complete record of every chunk file x replacement values \
         (quick: the 8 single-bit flips, 0x00, 0xFF, +1, -1, payload interiors skipped; thorough: all 255 other values at every offset), plus every middle chunk file removed; when an image offers more (offset,value) pairs than the tier's budget (4 000 / 150 000) a uniform stride sub-sample chosen by the case selector is tried and the size of the full space is reported. Each mutated image is opened with the real RaftLog::open (cache limits 0 so that entries are read back from disk) under catch_unwind. \
         Oracle: open returns Err, or Ok with state and entries identical to the unmutated store (then read(0,MAX), dump_data and the offline Dump must also work); never a panic, never Ok with other contents; after an Err every chunk file other than the newest is byte-identical to before. \
         Each mutation is classified with the reference decoder (field hit; whether the mutated record now runs past the end of the file). Second mode, corruption under a running store: the unmutated image is opened with an empty cache and, for every live entry stored in a closed chunk, bytes of its record are changed on disk one at a time; read(0,MAX) must then fail with an error (the record is re-verified on every cache-miss read). A mutation is non-trivial iff it hits a non-payload field or a non-newest chunk; distinct = (image, file, offset)."
            .to_string()
    }
    fn assumptions(&self) -> Vec<String> {
        vec!["single-byte corruption as stated by the property".into(), "images are those the store itself produced after flush + idle".into()]
    }
    fn cases(&self, tier: Tier) -> u32 {
        match tier {
            Tier::Quick => 6,
            Tier::Thorough => 40,
        }
    }
    fn strategy(&self, tier: Tier) -> BoxedStrategy<Case> {
        case_strategy(&profile(tier))
    }
    fn run_case(&self, case: &Case, ctx: &Ctx) -> Result<CaseInfo, Fail> {
        let mut info = CaseInfo::default();
        let st = settled_image(case)?;
        let cfg = open_cfg(case);
        let want = st.model.cur.clone();
        let td = TrialDir::new(&st.img);
        let files: Vec<(u64, String, Vec<u8>)> = shadowfs::ordered(&st.img).into_iter().map(|(o, n, d)| (o, n.clone(), d.clone())).collect();
        let img_hash = crate::crash::image_hash(&st.img);
        let newest = files.len() - 1;
        let all = ctx.tier == Tier::Thorough;
        let mut labels: BTreeMap<String, u64> = BTreeMap::new();
        let mut nt = vec![];
        let mut evals = 0u64;
        let mut known_hits: Vec<(String, String)> = vec![];
        let mut excluded = 0u64;
        let mut sample = None;
        // sanity: the unmutated image opens to the model state
        match td.open(&cfg) {
            Trial::Ok(s) if s == want => {}
            other => return Err(Fail::new("unmutated-image-differs", format!("the unmutated settled image does not open to the model state: {:?}", other).chars().take(800).collect::<String>())),
        }
        td.restore();
        // Budget: when the image offers more (offset, value) pairs than the tier allows, a
        // uniform sub-sample of them (stride from the case selector) is tried; payload bytes
        // other than the first / last four of a payload are left to the thorough tier.
        let budget: u64 = if all { 150_000 } else { 4_000 };
        let mut total: u64 = 0;
        for (_, _, data) in files.iter() {
            let parsed = refcodec::parse_chunk(data);
            let bounds = parsed.boundaries();
            for (ri, rec) in parsed.recs.iter().enumerate() {
                for pos in bounds[ri]..bounds[ri + 1] {
                    if skip_pos(rec, bounds[ri], bounds[ri + 1], pos, all) {
                        continue;
                    }
                    total += values(data[pos], all).len() as u64;
                }
            }
        }
        let stride = (total / budget).max(1);
        let phase = case.sel % stride;
        let mut t: u64 = 0;
        info.label_n("mutation_space", total);
        for (fi, (_off, name, data)) in files.iter().enumerate() {
            let parsed = refcodec::parse_chunk(data);
            let bounds = parsed.boundaries();
            for (ri, rec) in parsed.recs.iter().enumerate() {
                let (rs, re) = (bounds[ri], bounds[ri + 1]);
                for pos in rs..re {
                    if skip_pos(rec, rs, re, pos, all) {
                        continue;
                    }
                    let field = refcodec::field_at(rec, re - rs, pos - rs);
                    let nontrivial = field != "payload" || fi != newest;
                    for v in values(data[pos], all) {
                        t += 1;
                        if t % stride != phase {
                            continue;
                        }
                        if nontrivial {
                            nt.push(mix(mix(img_hash, fi as u64), pos as u64));
                        }
                        let mut m = data.clone();
                        m[pos] = v;
                        td.set_file(name, Some(&m));
                        evals += 1;
                        *labels.entry(format!("field_{field}")).or_insert(0) += 1;
                        let out = td.open(&cfg);
                        let after = td.current();
                        // classification of the mutated file by the reference decoder
                        let mp = refcodec::parse_chunk(&m);
                        let overrun = mp.recs.len() == ri && mp.stop == Some(DecErr::Eof);
                        let desc = format!(
                            "byte {pos} of {name} ({} of record #{ri} {:?}) changed {:#04x} -> {:#04x}{}",
                            field,
                            rec.kind(),
                            data[pos],
                            v,
                            if overrun { "; the mutated record now claims bytes beyond the end of the file" } else { "" }
                        );
                        let mut fail: Option<Fail> = None;
                        match &out {
                            Trial::Err(_) => {
                                *labels.entry("outcome_err".into()).or_insert(0) += 1;
                                for (fj, (_, n2, _)) in files.iter().enumerate() {
                                    if fj == newest {
                                        continue;
                                    }
                                    let expect: &Vec<u8> = if fj == fi { &m } else { &files[fj].2 };
                                    if after.get(n2) != Some(expect) {
                                        let key = if overrun && fj == fi { K_OLDER } else { "refused-open-modified-older-chunk" };
                                        fail = Some(Fail::new(key, format!("{desc}: open refused, but it changed the non-newest chunk file {n2} ({} -> {:?} bytes)", expect.len(), after.get(n2).map(|x| x.len()))));
                                        break;
                                    }
                                }
                            }
                            Trial::Ok(s) => {
                                if *s == want {
                                    *labels.entry("outcome_ok_same".into()).or_insert(0) += 1;
                                } else {
                                    let key = if overrun && fi == newest { K_NEWEST } else { "corruption-silently-absorbed" };
                                    fail = Some(Fail::new(
                                        key,
                                        format!("{desc}: open succeeded with different contents: state {:?} / {} entries, written state {:?} / {} entries", s.st, s.log.len(), want.st, want.log.len()),
                                    ));
                                }
                            }
                            Trial::ReadErr(e) => {
                                // open accepted the image; a later read error is an allowed way of reporting
                                *labels.entry("outcome_read_err".into()).or_insert(0) += 1;
                                let _ = e;
                            }
                            Trial::Panic(e) => {
                                fail = Some(Fail::new("panic-on-corrupt-image", format!("{desc}: panic: {e}")));
                            }
                        }
                        td.restore();
                        if let Some(f) = fail {
                            if ctx.known.is_known(&f.key) {
                                *labels.entry(format!("known_{}", f.key)).or_insert(0) += 1;
                                excluded += 1;
                                if known_hits.iter().filter(|k| k.0 == f.key).count() == 0 {
                                    known_hits.push((f.key.clone(), f.msg.clone()));
                                }
                            } else {
                                return Err(f);
                            }
                        }
                    }
                }
            }
            td.set_file(name, Some(data));
        }
        // every middle chunk removed
        if files.len() >= 3 {
            for fi in 1..files.len() - 1 {
                td.set_file(&files[fi].1, None);
                evals += 1;
                nt.push(mix(mix(img_hash, fi as u64), u64::MAX));
                *labels.entry("middle_chunk_removed".into()).or_insert(0) += 1;
                let out = td.open(&cfg);
                let after = td.current();
                match out {
                    Trial::Err(_) => {
                        for (fj, (_, n2, d2)) in files.iter().enumerate() {
                            if fj != fi && fj != newest && after.get(n2) != Some(d2) {
                                return Err(Fail::new("refused-open-modified-older-chunk", format!("middle chunk {} removed: open refused but changed {}", files[fi].1, n2)));
                            }
                        }
                    }
                    Trial::Ok(s) => {
                        return Err(Fail::new("missing-chunk-absorbed", format!("middle chunk {} removed: open succeeded (state {:?}, {} entries)", files[fi].1, s.st, s.log.len())));
                    }
                    Trial::ReadErr(e) => return Err(Fail::new("missing-chunk-absorbed", format!("middle chunk {} removed: open succeeded, read failed: {e}", files[fi].1))),
                    Trial::Panic(e) => return Err(Fail::new("panic-on-corrupt-image", format!("middle chunk {} removed: panic: {e}", files[fi].1))),
                }
                td.restore();
            }
        }
        // A middle chunk is missing *and* the newest chunk holds no complete record (what a crash
        // during a rotation leaves): the hole must still be reported, whatever recovery does with
        // the record-less newest file.
        if files.len() >= 3 {
            let head_len = refcodec::parse_chunk(&files[newest].2).boundaries().get(1).copied().unwrap_or(0);
            let cuts: Vec<usize> = vec![0, 1, head_len / 2, head_len.saturating_sub(1)];
            for fi in 1..files.len() - 1 {
                for (ci, cut) in cuts.iter().enumerate() {
                    if ci > 0 && *cut == cuts[ci - 1] {
                        continue;
                    }
                    td.set_file(&files[fi].1, None);
                    td.set_file(&files[newest].1, Some(&files[newest].2[..*cut]));
                    evals += 1;
                    nt.push(mix(mix(img_hash, fi as u64), u64::MAX - 1 - *cut as u64));
                    *labels.entry("middle_chunk_removed_newest_recordless".into()).or_insert(0) += 1;
                    let what = format!("middle chunk {} removed and the newest chunk {} cut to {} bytes (no complete record)", files[fi].1, files[newest].1, cut);
                    let out = td.open(&cfg);
                    let after = td.current();
                    match out {
                        Trial::Err(_) => {
                            for (fj, (_, n2, d2)) in files.iter().enumerate() {
                                if fj != fi && fj != newest && after.get(n2) != Some(d2) {
                                    return Err(Fail::new("refused-open-modified-older-chunk", format!("{what}: open refused but changed {}", n2)));
                                }
                            }
                        }
                        Trial::Ok(s) => return Err(Fail::new("missing-chunk-absorbed", format!("{what}: open succeeded (state {:?}, {} entries; written: {:?}, {} entries)", s.st, s.log.len(), want.st, want.log.len()))),
                        Trial::ReadErr(e) => return Err(Fail::new("missing-chunk-absorbed", format!("{what}: open succeeded, read failed: {e}"))),
                        Trial::Panic(e) => return Err(Fail::new("panic-on-corrupt-image", format!("{what}: panic: {e}"))),
                    }
                    td.restore();
                }
            }
        }
        // The newest chunk carries a zero-filled tail (a shape recovery tolerates: it cuts the
        // zeros off) and one byte of a complete record of that chunk is altered: the damage must
        // still be reported, the zeros behind it are no excuse. Tails: 40 bytes, and one that
        // reaches past the next two 4 KiB boundaries.
        {
            let (_off, name, data) = &files[newest];
            let parsed = refcodec::parse_chunk(data);
            let bounds = parsed.boundaries();
            let zt_budget: u64 = if all { 20_000 } else { 700 };
            let space: u64 = (data.len() as u64) * 12 * 2;
            let zstride = (space / zt_budget).max(1);
            let mut zt: u64 = mix(case.sel, 5) % zstride;
            for tail in [40usize, 3 * 4096 - data.len() % 4096] {
                let mut base = data.clone();
                base.resize(data.len() + tail, 0);
                td.set_file(name, Some(&base));
                match td.open(&cfg) {
                    Trial::Ok(s2) if s2 == want => {}
                    other => return Err(Fail::new("zero-tail-image-differs", format!("the settled image with {tail} zero bytes appended to {name} does not open to the written state: {:?}", other).chars().take(800).collect::<String>())),
                }
                // (an open that cut the zeros off has also started a fresh chunk behind them)
                td.restore();
                for (ri, rec) in parsed.recs.iter().enumerate() {
                    let (rs, re) = (bounds[ri], bounds[ri + 1]);
                    for pos in rs..re {
                        if skip_pos(rec, rs, re, pos, all) {
                            continue;
                        }
                        for v in values(data[pos], all) {
                            zt += 1;
                            if zt % zstride != 0 {
                                continue;
                            }
                            let mut m = base.clone();
                            m[pos] = v;
                            td.set_file(name, Some(&m));
                            evals += 1;
                            *labels.entry("zero_tail_mutations".into()).or_insert(0) += 1;
                            nt.push(mix(mix(img_hash, 2_000_000 + tail as u64), pos as u64));
                            let mp = refcodec::parse_chunk(&m);
                            let overrun = mp.recs.len() == ri && mp.stop == Some(DecErr::Eof);
                            let field = refcodec::field_at(rec, re - rs, pos - rs);
                            let desc = format!("{name} with a {tail}-byte zero tail, byte {pos} ({field} of record #{ri} {:?}) changed {:#04x} -> {:#04x}", rec.kind(), data[pos], v);
                            let outcome = td.open(&cfg);
                            td.restore();
                            let fail = match outcome {
                                Trial::Err(_) | Trial::ReadErr(_) => None,
                                Trial::Ok(s2) if s2 == want => None,
                                Trial::Ok(s2) => Some(Fail::new(
                                    if overrun { K_NEWEST } else { "corruption-silently-absorbed" },
                                    format!("{desc}: open succeeded with different contents: state {:?} / {} entries, written state {:?} / {} entries", s2.st, s2.log.len(), want.st, want.log.len()),
                                )),
                                Trial::Panic(e) => Some(Fail::new("panic-on-corrupt-image", format!("{desc}: panic: {e}"))),
                            };
                            if let Some(f) = fail {
                                if ctx.known.is_known(&f.key) {
                                    *labels.entry(format!("known_{}", f.key)).or_insert(0) += 1;
                                    excluded += 1;
                                    if known_hits.iter().filter(|k| k.0 == f.key).count() == 0 {
                                        known_hits.push((f.key.clone(), f.msg.clone()));
                                    }
                                } else {
                                    return Err(f);
                                }
                            }
                        }
                    }
                }
                td.restore();
            }
        }
        // Corruption while the store is open: a byte of a live entry's record in a closed chunk
        // changes under a running store whose cache holds nothing; reading that entry must
        // fail with an error or return the original payload.
        {
            let config = std::sync::Arc::new(cfg.to_config(&td.dir));
            let threads0 = crate::trace::nr_threads();
            let rl = raft_log::RaftLog::<crate::types::VT>::open(config).map_err(|e| Fail::new("unmutated-image-differs", format!("second open of the unmutated image failed: {e}")))?;
            rl.drain_cache_evictable();
            let want_entries = want.entries();
            let mut live_fail: Option<Fail> = None;
            'outer: for (fi, (_off, name, data)) in files.iter().enumerate() {
                if fi == newest {
                    continue;
                }
                let parsed = refcodec::parse_chunk(data);
                let bounds = parsed.boundaries();
                for (ri, rec) in parsed.recs.iter().enumerate() {
                    let crate::model::Rec::Append(id, _) = rec else { continue };
                    if want.log.get(&id.1).map(|e| e.0) != Some(*id) {
                        continue; // not a live entry
                    }
                    let (rs, re) = (bounds[ri], bounds[ri + 1]);
                    let path = format!("{}/{}", td.dir, name);
                    for pos in rs..re {
                        if !all && (pos - rs) % 3 != (case.sel % 3) as usize && refcodec::field_at(rec, re - rs, pos - rs) == "payload" {
                            continue;
                        }
                        let o = data[pos];
                        for v in [o ^ 1, o ^ 0x40, o.wrapping_add(1)] {
                            use std::os::unix::fs::FileExt;
                            let f = std::fs::OpenOptions::new().write(true).open(&path).expect("open chunk for live corruption");
                            f.write_all_at(&[v], pos as u64).expect("corrupt byte");
                            evals += 1;
                            *labels.entry("live_corruption_reads".into()).or_insert(0) += 1;
                            nt.push(mix(mix(img_hash, 1_000_000 + fi as u64), pos as u64));
                            let res = std::panic::catch_unwind(std::panic::AssertUnwindSafe(|| crate::driver::read_all(&rl, 0, u64::MAX)));
                            f.write_all_at(&[o], pos as u64).expect("restore byte");
                            let desc = format!("while the store is open, byte {pos} of {name} ({} of the record of live entry {:?}) changed {:#04x} -> {:#04x}", refcodec::field_at(rec, re - rs, pos - rs), id, o, v);
                            match res {
                                Ok(Err(_)) => *labels.entry("live_corruption_reported".into()).or_insert(0) += 1,
                                Ok(Ok(got)) => {
                                    if got != want_entries {
                                        live_fail = Some(Fail::new("corrupt-entry-read-back-silently", format!("{desc}: read(0,MAX) succeeded and returned {:?}; written were {:?}", crate::driver::brief(&got), crate::driver::brief(&want_entries))));
                                        break 'outer;
                                    }
                                    live_fail = Some(Fail::new("corrupt-record-read-without-error", format!("{desc}: read(0,MAX) succeeded with the original contents although the record on disk is damaged (no checksum error)")));
                                    break 'outer;
                                }
                                Err(p) => {
                                    live_fail = Some(Fail::new("panic-on-corrupt-image", format!("{desc}: read panicked: {}", crate::driver::panic_msg(&p))));
                                    break 'outer;
                                }
                            }
                        }
                    }
                }
            }
            drop(rl);
            crate::trace::wait_threads(threads0, crate::driver::WATCHDOG);
            td.restore();
            if let Some(f) = live_fail {
                return Err(f);
            }
        }
        if sample.is_none() {
            sample = Some(json!({"case": case, "files": crate::crash::describe_image(&st.img), "mutations_tried": evals}));
        }
        info.evals = evals;
        for (k, v) in labels {
            info.label_n(k, v);
        }
        info.label_n("chunk_files", files.len() as u64);
        info.nontrivial = !nt.is_empty();
        info.nontrivial_hashes = nt;
        info.known_hits = known_hits;
        info.excluded = excluded;
        info.sample = sample;
        Ok(info)
    }
}
