//! C05 — crash recoverability: after any crash the directory opens without repair, never
//! panics, and the recovered store keeps working (writes, flush, one more restart).

use std::collections::BTreeMap;
use std::collections::BTreeSet;

use proptest::strategy::BoxedStrategy;
use serde_json::json;

use crate::crash;
use crate::crash::Outcome;
use crate::crash::Recorded;
use crate::driver::fresh_dir;
use crate::driver::remove_dir;
use crate::driver::Fail;
use crate::driver::Run;
use crate::model::Snapshot;
use crate::ops::case_strategy;
use crate::ops::mix;
use crate::ops::Case;
use crate::ops::CfgSpec;
use crate::ops::FirstSel;
use crate::ops::OpSpec;
use crate::ops::PaySel;
use crate::ops::Profile;
use crate::ops::TermSel;
use crate::props::c02::reopen_checked;
use crate::props::c03::image_cfg;
use crate::refcodec;
use crate::runner::CaseInfo;
use crate::runner::Ctx;
use crate::runner::Prop;
use crate::runner::Tier;
use crate::shadowfs;
use crate::shadowfs::Image;
use crate::shadowfs::SFile;
use crate::shadowfs::Shadow;
use crate::trace;
use crate::trace::Ev;

pub struct C05;

pub fn profile(tier: Tier) -> Profile {
    let mut p = Profile::base(if tier == Tier::Quick { 25 } else { 60 });
    p.w_steps = 8;
    p.w_flush = 4;
    p.w_reopen = 1;
    p.w_purge = 3;
    p.w_read = 0;
    p.with_alt = true;
    // worker I/O faults before the crash (round 3): a failed or torn write, a failed sync —
    // whatever the store did about them, the directory must still open after the crash
    p.faults = crate::ops::FaultGen::Io;
    p
}

fn suffix_ops(sel: u64) -> Vec<OpSpec> {
    let all = [
        OpSpec::Append { n: 2, term: TermSel::Bump(1), first: FirstSel::Small(2), pay: PaySel::Tiny(4) },
        OpSpec::Vote { bump: 1, node: 1 },
        OpSpec::Commit { pos: (sel >> 8) as u16, beyond: false },
        OpSpec::Truncate { pos: (sel >> 16) as u16 },
        OpSpec::Append { n: 3, term: TermSel::Bump(1), first: FirstSel::Zero, pay: PaySel::Mid },
        OpSpec::Purge { pos: (sel >> 24) as u16, beyond: 0, noop: false },
        OpSpec::UserData { len: Some(7) },
        OpSpec::Append { n: 1, term: TermSel::Same, first: FirstSel::Zero, pay: PaySel::Empty },
    ];
    let n = 2 + (sel % 5) as usize;
    let start = (sel >> 4) as usize % all.len();
    (0..n).map(|i| all[(start + i) % all.len()].clone()).collect()
}

/// The recovered store must accept further writes, a flush, and a further restart.
/// `small_cache_ok`: the history before the crash holds no entry re-appended at or below an
/// earlier id. Otherwise the recovered store may already sit in the known C07 window (an entry
/// of the re-opened newest chunk at or below the boundary `open()` installs), and an empty cache
/// would evict it: such images are continued with an unlimited cache only.
pub fn suffix_check(img: &Image, cfg: &CfgSpec, snap: Snapshot, sel: u64, max_id: Option<(u64, u64)>, small_cache_ok: bool) -> Result<(), Fail> {
    let dir = fresh_dir("sfx");
    shadowfs::write_image(&dir, img).map_err(|e| Fail::new("harness-io", e.to_string()))?;
    trace::reset_acks();
    // half of the suffix runs use a cache that holds nothing, so that every entry of a closed
    // chunk is read back from disk after the recovery
    let mut cfg = cfg.clone();
    if sel % 2 == 0 && small_cache_ok {
        cfg.cache_items = Some(0);
        cfg.cache_cap = Some(0);
    }
    let cfg = &cfg;
    let mut run = match Run::attach(&dir, cfg, snap, false) {
        Ok(r) => r,
        Err(e) => {
            remove_dir(&dir);
            return Err(Fail::new("reopen-of-image-failed", format!("second open of the same image failed: {e}")));
        }
    };
    // keep the known C07 class out: ids appended before the crash (also ones truncated away
    // since) count as "earlier ids"
    run.avoid_low_reappend = true;
    if max_id > run.max_id_seen {
        run.max_id_seen = max_id;
    }
    let r = std::panic::catch_unwind(std::panic::AssertUnwindSafe(|| -> Result<(), Fail> {
        run.check_state()?;
        run.check_full_read()?;
        for op in suffix_ops(sel) {
            run.exec(&op)?;
            run.check_state()?;
            run.check_full_read()?;
        }
        let cfg2 = run.cfg.clone();
        reopen_checked(&mut run, &cfg2)?;
        run.exec(&OpSpec::Append { n: 1, term: TermSel::Same, first: FirstSel::Zero, pay: PaySel::Tiny(3) })?;
        run.check_full_read()?;
        run.flush_and_settle()?;
        // what a restart leaves behind must itself survive restarts: two more, the first right
        // away (nothing written in between), the second after one more write
        reopen_checked(&mut run, &cfg2)?;
        reopen_checked(&mut run, &cfg2)?;
        run.exec(&OpSpec::Vote { bump: 1, node: 2 })?;
        reopen_checked(&mut run, &cfg2)?;
        run.check_full_read()?;
        Ok(())
    }));
    let r = match r {
        Ok(r) => r,
        Err(p) => Err(Fail::new("panic", format!("a write on the recovered store panicked: {} ({})", crate::driver::panic_msg(&p), crate::props::last_panic_location()))),
    };
    let _ = std::panic::catch_unwind(std::panic::AssertUnwindSafe(|| run.finish()));
    remove_dir(&dir);
    r.map_err(|mut f| {
        f.key = format!("after-recovery/{}", f.key);
        f
    })
}

/// Highest log id that ever appeared in the history (appended or purged-to).
pub fn max_id_of(model: &crate::model::Model) -> Option<(u64, u64)> {
    model
        .records
        .iter()
        .filter_map(|r| match r {
            crate::model::Rec::Append(id, _) | crate::model::Rec::PurgeUpto(id) => Some(*id),
            _ => None,
        })
        .max()
}

fn needs_repair(img: &Image) -> bool {
    shadowfs::ordered(img).last().map(|(_, _, d)| refcodec::parse_chunk(d).valid_len() != d.len() || d.is_empty()).unwrap_or(false)
}

impl Prop for C05 {
    fn id(&self) -> &'static str {
        "C05"
    }
    fn level(&self) -> &'static str {
        "fault_enumeration"
    }
    fn rule(&self) -> String {
        "same generator, trace and crash-image enumeration as C03 (every trace position x process crash / crash inside a write / power-loss variants), histories biased to purges so that chunk removals occur. Oracle per distinct image: RaftLog::open must return Ok (no Err, no panic). \
         For a sample of images per case (one per distinct recovered prefix, bounded) the recovered store must then follow the reference model through 2-6 further legal writes, a restart, another write and a flush whose callback reports Ok. \
         Crash during recovery: for sampled images whose newest chunk needs repair, the recovery itself is traced (open64/ftruncate/fsync/unlink/create/write) and crashed again at every position; those depth-2 images must open Ok and show a prefix within the same bounds. \
         Failing images are classified with the reference decoder: listed known classes are counted and reported as KNOWN-FINDING, anything else is a violation. An image is non-trivial iff its crash point lies within 3 trace events of a chunk creation or unlink, or it is a depth-2 image; distinct = (case,image) hash."
            .to_string()
    }
    fn assumptions(&self) -> Vec<String> {
        vec![
            "crash model as in C03".into(),
            "the suffix check runs on a bounded sample of the images of each case; every image is opened".into(),
        ]
    }
    fn cases(&self, tier: Tier) -> u32 {
        match tier {
            Tier::Quick => 30,
            Tier::Thorough => 600,
        }
    }
    fn strategy(&self, tier: Tier) -> BoxedStrategy<Case> {
        case_strategy(&profile(tier))
    }
    fn run_case(&self, case: &Case, ctx: &Ctx) -> Result<CaseInfo, Fail> {
        let mut info = CaseInfo::default();
        // half of the cases run without injected faults (those keep their clean restarts)
        let mut eff = case.clone();
        if case.sel & 1 == 0 {
            eff.faults.clear();
        } else if case.sel & 2 == 0 {
            // with tiny chunks nearly every worker write is the tail of a rotation, and a lost
            // tail ends in the known rotation-gap class; half of the fault cases get roomy chunks
            // so that the failed write is one that carries flushed records
            eff.cfg.max_records = if case.sel & 4 == 0 { Some(20) } else { None };
            eff.cfg.max_size = if case.sel & 8 == 0 { None } else { Some(5000) };
        }
        let case = &eff;
        let rec = crash::record(case, false, false)?;
        let icfg = image_cfg(case);
        let per_point = if ctx.tier == Tier::Quick { 5 } else { 30 };
        let case_hash = case.hash64();
        // positions of creations / unlinks
        let hot: Vec<usize> = rec.trace.iter().enumerate().filter(|(_, e)| matches!(e, Ev::Open { create: true, .. } | Ev::Unlink { .. })).map(|(i, _)| i).collect();
        let near_hot = |q: usize| hot.iter().any(|h| q + 3 >= *h && q <= *h + 4);
        let mut bounds_cache: BTreeMap<usize, crash::Bounds> = BTreeMap::new();
        let mut labels: BTreeMap<String, u64> = BTreeMap::new();
        let mut evals = 0u64;
        let mut nt = vec![];
        let mut known_hits = vec![];
        let mut excluded = 0u64;
        let mut suffix_done: BTreeSet<usize> = BTreeSet::new();
        let suffix_budget = if ctx.tier == Tier::Quick { 10 } else { 40 };
        let mut depth2_budget = if ctx.tier == Tier::Quick { 3 } else { 12 };
        let mut sample = None;

        let judge = |img: &Image, out: &Outcome, ctxs: &str, known_hits: &mut Vec<(String, String)>, excluded: &mut u64, labels: &mut BTreeMap<String, u64>| -> Result<bool, Fail> {
            let (kind, msg) = match out {
                Outcome::Err(e) => ("err", e.clone()),
                Outcome::Panic(e) => ("panic", e.clone()),
                _ => return Ok(true),
            };
            let class = crash::image_class(img, rec.layout.as_ref()).unwrap_or("open-failed");
            let key = format!("{}/{}", class, kind);
            let text = format!("{ctxs}: RaftLog::open {} : {}; image: {}", if kind == "err" { "returned Err" } else { "panicked" }, msg, crash::describe_image(img));
            if ctx.known.is_known(&key) {
                if known_hits.len() < 3 {
                    known_hits.push((key.clone(), text));
                }
                *excluded += 1;
                *labels.entry(format!("known_{}", key)).or_insert(0) += 1;
                return Ok(false);
            }
            Err(Fail::new(key, text))
        };

        crash::enumerate_images(&rec, Shadow::default(), case.sel, per_point, ctx.tier == Tier::Thorough, |ci| {
            let b = *bounds_cache.entry(ci.q).or_insert_with(|| crash::bounds_at(&rec, ci.q));
            evals += 1;
            *labels.entry(format!("image_{}", ci.kind)).or_insert(0) += 1;
            let out = crash::open_image(&ci.img, &icfg, &rec.model, b.issued);
            let ctxs = format!("crash after {} trace events ({}: {})", ci.q, ci.kind, ci.desc);
            let ok = judge(&ci.img, &out, &ctxs, &mut known_hits, &mut excluded, &mut labels)?;
            if !ok {
                return Ok(());
            }
            *labels.entry("open_ok".into()).or_insert(0) += 1;
            if near_hot(ci.q) {
                nt.push(mix(case_hash, crash::image_hash(&ci.img)));
                if sample.is_none() && ci.kind == "power" {
                    sample = Some(json!({"case": case, "crash_after_events": ci.q, "kind": ci.kind, "image": ci.desc, "files": crash::describe_image(&ci.img), "outcome": format!("{:?}", out).chars().take(80).collect::<String>()}));
                }
            }
            // further use of the recovered store
            if let Outcome::Prefix(i) = out {
                if suffix_done.len() < suffix_budget && suffix_done.insert(i * 4 + (ci.kind.len() % 4)) {
                    *labels.entry("suffix_checked".into()).or_insert(0) += 1;
                    suffix_check(&ci.img, &icfg, rec.model.prefix[i].clone(), mix(case.sel, ci.q as u64), max_id_of(&rec.model), !rec.classes.has("reappend_at_or_below_earlier_id")).map_err(|mut f| {
                        f.msg = format!("{ctxs}: recovered the state after {i} records, then: {}; image: {}", f.msg, crash::describe_image(&ci.img));
                        f
                    })?;
                }
            }
            // crash during recovery
            if depth2_budget > 0 && needs_repair(&ci.img) {
                depth2_budget -= 1;
                if let Some((rec2, init)) = crash::record_recovery(&ci.img, ci.durable.as_ref(), &icfg, &rec) {
                    crash::enumerate_images(&rec2, init, mix(case.sel, 77), 3, false, |c2| {
                        evals += 1;
                        *labels.entry("image_depth2".into()).or_insert(0) += 1;
                        let out2 = crash::open_image(&c2.img, &icfg, &rec.model, b.issued);
                        let ctx2 = format!("{ctxs}; then crash during recovery after {} of its events ({}: {})", c2.q, c2.kind, c2.desc);
                        let ok2 = judge(&c2.img, &out2, &ctx2, &mut known_hits, &mut excluded, &mut labels)?;
                        if ok2 {
                            nt.push(mix(case_hash, crash::image_hash(&c2.img)));
                            match out2 {
                                Outcome::Prefix(i2) if i2 >= b.acked && i2 <= b.issued => {}
                                Outcome::Prefix(i2) => {
                                    return Err(Fail::new("depth2/prefix-out-of-bounds", format!("{ctx2}: recovered {i2} records, bounds [{}, {}]", b.acked, b.issued)));
                                }
                                other => {
                                    return Err(Fail::new("depth2/no-prefix", format!("{ctx2}: {:?}; image: {}", other, crash::describe_image(&c2.img)).chars().take(1500).collect::<String>()));
                                }
                            }
                        }
                        Ok(())
                    })?;
                }
            }
            Ok(())
        })?;
        info.evals = evals;
        info.labels = labels;
        for (k, v) in &rec.classes.m {
            if !k.starts_with("__") {
                info.label_n(format!("hist_{k}"), *v);
            }
        }
        info.nontrivial = !nt.is_empty();
        info.nontrivial_hashes = nt;
        info.sample = sample;
        info.label_n("hist_faults_hit", rec.faults_hit as u64);
        info.label_n("hist_hard_faults_hit", rec.hard_faults_hit as u64);
        info.known_hits = known_hits;
        info.excluded = excluded;
        Ok(info)
    }
}
