//! C04 — flush acknowledgement soundness, judged purely on the I/O trace.

use std::collections::BTreeMap;

use proptest::strategy::BoxedStrategy;
use serde_json::json;

use crate::crash;
use crate::crash::Recorded;
use crate::driver::Fail;
use crate::ops::case_strategy;
use crate::ops::Case;
use crate::ops::FaultGen;
use crate::ops::Profile;
use crate::refcodec;
use crate::runner::CaseInfo;
use crate::runner::Ctx;
use crate::runner::Prop;
use crate::runner::Tier;
use crate::shadowfs::Shadow;
use crate::trace::Ev;

pub struct C04;

pub fn profile(tier: Tier) -> Profile {
    let mut p = Profile::base(if tier == Tier::Quick { 30 } else { 80 });
    p.w_steps = 7;
    p.w_flush = 7;
    p.w_reopen = 1;
    p.w_read = 0;
    p.faults = FaultGen::IoAndCreate;
    p
}

/// Judge every acknowledgement of a recording. Returns (acks judged, batched acks seen, acks whose data spans a rotation).
pub fn judge_acks(rec: &Recorded) -> Result<(u64, u64, u64), Fail> {
    let mut sh = Shadow::default();
    let mut seen: BTreeMap<u64, usize> = BTreeMap::new();
    let mut last_ok_ack: Option<u64> = None;
    let mut last_ack_any: Option<u64> = None;
    let mut judged = 0;
    let mut batched = 0;
    let mut spanning = 0;
    let mut prev_was_ack = false;
    for (p, ev) in rec.trace.iter().enumerate() {
        match ev {
            Ev::Ack { flush, ok, err, .. } => {
                if let Some(first) = seen.insert(*flush, p) {
                    return Err(Fail::new("ack-twice", format!("flush {flush} was acknowledged twice (trace positions {first} and {p})")));
                }
                if let Some(prev) = last_ack_any {
                    if *flush < prev {
                        return Err(Fail::new("ack-order", format!("callback of flush {flush} fired after the callback of the later flush {prev} (trace position {p})")));
                    }
                }
                last_ack_any = Some(*flush);
                if prev_was_ack {
                    batched += 1;
                }
                prev_was_ack = true;
                let Some(fi) = rec.flushes.get(*flush as usize) else { continue };
                if !*ok {
                    let _ = err;
                    continue;
                }
                last_ok_ack = Some(*flush);
                judged += 1;
                let j = fi.j_end;
                let mut files_touched = 0;
                for (id, f) in sh.files.iter().enumerate() {
                    if !f.exists {
                        continue;
                    }
                    let Some(start) = refcodec::parse_chunk_file_name(&rec.names[id]) else { continue };
                    if j <= start {
                        continue;
                    }
                    // bytes of this chunk that were journalled before the flush call: from the
                    // expected journal layout, or — once an injected caller-side failure has made
                    // the layout unpredictable — from the store's own account of its chunks at
                    // the time of the flush call (files it no longer lists are left out)
                    let chunk_end = if rec.layout.is_some() {
                        chunk_end_of(rec, start)
                    } else {
                        match fi.chunks.iter().position(|c| c.0 == start) {
                            Some(k) if k + 1 < fi.chunks.len() => Some(fi.chunks[k].1),
                            Some(_) => None,
                            None => continue,
                        }
                    };
                    let needed = (j.min(chunk_end.unwrap_or(u64::MAX)) - start) as usize;
                    if needed == 0 {
                        continue;
                    }
                    files_touched += 1;
                    if f.content.len() < needed {
                        return Err(Fail::new(
                            "ack-before-write",
                            format!("flush {flush} (journal end {j}) was acknowledged Ok at trace position {p}, but {} holds only {} of the {} bytes journalled before that flush", rec.names[id], f.content.len(), needed),
                        ));
                    }
                    let synced = f.synced_len();
                    if synced < needed {
                        return Err(Fail::new(
                            "ack-without-successful-sync",
                            format!(
                                "flush {flush} (journal end {j}) was acknowledged Ok at trace position {p}, but only {} of the {} bytes of {} journalled before that flush were covered by a successful sync (last successful sync at {:?}, last write at {:?})",
                                synced, needed, rec.names[id], f.last_sync_pos, f.last_write_pos
                            ),
                        ));
                    }
                    if let Some(want) = expected_bytes(rec, start) {
                        if want.len() >= needed && f.content[..needed] != want[..needed] {
                            return Err(Fail::new("acked-bytes-differ", format!("flush {flush}: the bytes of {} covered by the acknowledgement differ from the journalled records", rec.names[id])));
                        }
                    }
                }
                if files_touched >= 2 {
                    spanning += 1;
                }
            }
            Ev::Mark(_) | Ev::Pread { .. } => {}
            _ => prev_was_ack = false,
        }
        sh.apply(p, ev);
    }
    let _ = last_ok_ack;
    Ok((judged, batched, spanning))
}

fn chunk_end_of(rec: &Recorded, start: u64) -> Option<u64> {
    let l = rec.layout.as_ref()?;
    let i = l.chunks.iter().position(|c| c.start == start)?;
    if i + 1 < l.chunks.len() {
        Some(l.chunks[i].end())
    } else {
        None
    }
}

fn expected_bytes(rec: &Recorded, start: u64) -> Option<Vec<u8>> {
    let l = rec.layout.as_ref()?;
    l.chunks.iter().find(|c| c.start == start).map(|c| c.bytes())
}

impl Prop for C04 {
    fn id(&self) -> &'static str {
        "C04"
    }
    fn level(&self) -> &'static str {
        "fault_enumeration"
    }
    fn rule(&self) -> String {
        "proptest generates (config, history with many flushes incl. several in a row and across rotations, worker schedule, fault plan: none / fail the k-th worker write or fdatasync once / n times in a row / forever with EIO or ENOSPC / short writes / EINTR). \
         The run is traced through libc interposition with the worker gated at every call; at the end the worker is run until idle or dead. Oracle over the trace, for every callback that reported Ok at position p: for every chunk file present at p that overlaps the journal range [0, J) (J = journal end when that flush was called), \
         all of its bytes below J have been written, are covered by a *successful* sync that came after the write and before p, and equal the reference encoding; each flush id is acknowledged at most once; acknowledgements appear in request order; \
         if no EIO/ENOSPC was injected, every flush has exactly one acknowledgement and it is Ok once the worker is idle. Non-trivial iff an EIO/ENOSPC fault hit, or >=2 callbacks fired from one worker batch, or an acknowledged flush covered bytes in >=2 chunk files; distinct = case hash."
            .to_string()
    }
    fn assumptions(&self) -> Vec<String> {
        vec![
            "fault histories stay within one incarnation (no restart after an injected error)".into(),
            "a successful fdatasync after a failed one counts as covering the bytes written before it (what the page cache does after EIO is outside the property)".into(),
        ]
    }
    fn cases(&self, tier: Tier) -> u32 {
        match tier {
            Tier::Quick => 1500,
            Tier::Thorough => 25_000,
        }
    }
    fn strategy(&self, tier: Tier) -> BoxedStrategy<Case> {
        case_strategy(&profile(tier))
    }
    fn extra(&self, _ctx: &Ctx, shard: usize, rep: &mut crate::runner::ShardReport) {
        // deep-queue scenario: 1500 flushes queued against a parked worker (the caller ends up
        // blocked on the full request channel), then everything drains; every ack is judged
        if shard != 0 {
            return;
        }
        let r = crate::deepq::deep_queue(1500).and_then(|(rec, blocked)| {
            let (judged, batched, _) = judge_acks(&rec)?;
            for f in &rec.flushes {
                let n = rec.trace.iter().filter(|e| matches!(e, Ev::Ack { flush, ok: true, .. } if *flush == f.id)).count();
                if n != 1 {
                    return Err(Fail::new("ack-missing", format!("flush {} of the deep-queue scenario was acknowledged Ok {} times", f.id, n)));
                }
            }
            Ok((judged, batched, blocked))
        });
        match r {
            Ok((judged, batched, blocked)) => {
                rep.evaluations += judged;
                *rep.labels.entry("deep_queue_acks_judged".into()).or_insert(0) += judged;
                *rep.labels.entry("deep_queue_acks_in_one_batch".into()).or_insert(0) += batched;
                *rep.labels.entry("deep_queue_caller_blocked_on_full_channel".into()).or_insert(0) += blocked;
            }
            Err(f) => rep.violations.push(crate::runner::Violation { key: format!("deep-queue/{}", f.key), msg: format!("deep-queue scenario (1500 append+flush against a parked worker): {}", f.msg), case: serde_json::to_value(crate::ops::sample_case()).unwrap(), origin: "deep-queue".into() }),
        }
    }
    fn run_case(&self, case: &Case, _ctx: &Ctx) -> Result<CaseInfo, Fail> {
        let mut info = CaseInfo::default();
        let rec = crash::record(case, false, true)?;
        let (judged, batched, spanning) = judge_acks(&rec)?;
        // exactly once when no I/O error occurred
        if rec.hard_faults_hit == 0 {
            for f in &rec.flushes {
                let acks: Vec<&Ev> = rec.trace.iter().filter(|e| matches!(e, Ev::Ack { flush, .. } if *flush == f.id)).collect();
                match acks.as_slice() {
                    [Ev::Ack { ok: true, .. }] => {}
                    [] => return Err(Fail::new("ack-missing", format!("no I/O error occurred and the worker is idle, but flush {} was never acknowledged", f.id))),
                    [Ev::Ack { ok: false, err, .. }] => return Err(Fail::new("ack-error-without-fault", format!("no I/O error was injected but flush {} reported {:?}", f.id, err))),
                    _ => return Err(Fail::new("ack-twice", format!("flush {} acknowledged {} times", f.id, acks.len()))),
                }
            }
        }
        info.evals = judged + rec.flushes.len() as u64;
        for (k, v) in &rec.classes.m {
            if !k.starts_with("__") {
                info.label_n(*k, *v);
            }
        }
        info.label_n("acks_judged", judged);
        info.label_n("acks_in_one_batch", batched);
        info.label_n("acks_spanning_rotation", spanning);
        info.label_n("hard_faults_hit", rec.hard_faults_hit as u64);
        info.label_n("benign_faults_hit", (rec.faults_hit - rec.hard_faults_hit) as u64);
        let dropped = rec.trace.iter().filter(|e| matches!(e, Ev::AckDropped { .. })).count() as u64;
        info.label_n("callbacks_dropped_uncalled", dropped);
        info.nontrivial = judged > 0 && (rec.hard_faults_hit > 0 || batched > 0 || spanning > 0);
        if info.nontrivial && rec.hard_faults_hit > 0 {
            info.sample = Some(json!({"case": case, "acks_judged": judged, "hard_faults_hit": rec.hard_faults_hit, "trace_events": rec.trace.len()}));
        }
        Ok(info)
    }
}
