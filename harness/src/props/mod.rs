//! One module per property; shared set-up / tear-down helpers.

use std::panic::catch_unwind;
use std::panic::AssertUnwindSafe;
use std::sync::Mutex;

use crate::driver::fresh_dir;
use crate::driver::panic_msg;
use crate::driver::remove_dir;
use crate::driver::Fail;
use crate::driver::Run;
use crate::ops::CfgSpec;
use crate::runner::Prop;
use crate::trace;
use crate::trace::Ctl;
use crate::trace::FaultRule;

pub mod c01;
pub mod c02;
pub mod c03;
pub mod c04;
pub mod c05;
pub mod c06;
pub mod c07;
pub mod c08;
pub mod c09;
pub mod c10;
pub mod c11;
pub mod c12;
pub mod c13;
pub mod c14;
pub mod c15;
pub mod c16;

pub fn all() -> Vec<Box<dyn Prop>> {
    vec![Box::new(c01::C01), Box::new(c02::C02), Box::new(c06::C06), Box::new(c11::C11), Box::new(c16::C16), Box::new(c07::C07), Box::new(c15::C15), Box::new(c03::C03), Box::new(c05::C05), Box::new(c04::C04), Box::new(c08::C08), Box::new(c14::C14), Box::new(c09::C09), Box::new(c10::C10), Box::new(c12::C12), Box::new(c13::C13)]
}

pub fn by_id(id: &str) -> Option<Box<dyn Prop>> {
    all().into_iter().find(|p| p.id() == id)
}

/// Messages of every panic raised in this process (any thread), newest last.
pub static PANICS: Mutex<Vec<String>> = Mutex::new(Vec::new());

pub fn install_panic_hook() {
    std::panic::set_hook(Box::new(|info| {
        let loc = info.location().map(|l| format!("{}:{}", l.file(), l.line())).unwrap_or_default();
        let msg = if let Some(s) = info.payload().downcast_ref::<&str>() {
            s.to_string()
        } else if let Some(s) = info.payload().downcast_ref::<String>() {
            s.clone()
        } else {
            "<panic>".to_string()
        };
        let th = std::thread::current().name().unwrap_or("?").to_string();
        if let Ok(mut g) = PANICS.lock() {
            g.push(format!("[{}] {} at {}", th, msg, loc));
            if g.len() > 1000 {
                g.drain(..500);
            }
        }
        if std::env::var_os("RLV_SHOW_PANICS").is_some() {
            eprintln!("panic: [{}] {} at {}", th, msg, loc);
        }
    }));
}

pub fn last_panic_location() -> String {
    PANICS.lock().ok().and_then(|g| g.last().cloned()).unwrap_or_default()
}

/// Self-check of the interposition layer: replaying the whole trace must give exactly the chunk
/// files that are on disk. A mismatch means the store did I/O the trace did not see (a call
/// that is not interposed); every trace-based verdict would then be unfounded.
pub fn trace_matches_disk(ctl: &Ctl, dir: &str) -> Result<(), String> {
    let sh = crate::shadowfs::Shadow::replay(&ctl.trace, ctl.trace.len());
    let want = sh.process_image(&ctl.names);
    let got = crate::shadowfs::read_image_all(dir).map_err(|e| format!("cannot list {dir}: {e}"))?;
    if want == got {
        return Ok(());
    }
    for (n, d) in &got {
        match want.get(n) {
            None => return Err(format!("{n} exists on disk ({} bytes) but not in the trace", d.len())),
            Some(w) if w != d => return Err(format!("{n}: {} bytes on disk, {} bytes according to the trace (or different content)", d.len(), w.len())),
            _ => {}
        }
    }
    for n in want.keys() {
        if !got.contains_key(n) {
            return Err(format!("{n} exists according to the trace but not on disk"));
        }
    }
    Err("unknown difference".into())
}

/// Run `f` on a fresh store under an active trace; always tears everything down (store
/// dropped, worker threads gone, trace ended, directory removed). Returns `f`'s result and
/// the finished trace context.
pub fn with_run<R>(cfg: &CfgSpec, stepped: bool, faults: &[FaultRule], f: impl FnOnce(&mut Run) -> Result<R, Fail>) -> Result<(R, Box<Ctl>), Fail> {
    let dir = fresh_dir("case");
    trace::reset_acks();
    trace::begin(&dir);
    if !faults.is_empty() {
        trace::set_faults(faults.to_vec());
    }
    let mut run_slot: Option<Run> = None;
    let res = catch_unwind(AssertUnwindSafe(|| {
        let run = Run::start(&dir, cfg, stepped)?;
        run_slot = Some(run);
        f(run_slot.as_mut().unwrap())
    }));
    if let Some(run) = run_slot.as_mut() {
        // tear down without letting a second panic escape
        let _ = catch_unwind(AssertUnwindSafe(|| run.finish()));
    }
    let ctl = trace::end();
    drop(run_slot);
    let complete = trace_matches_disk(&ctl, &dir);
    remove_dir(&dir);
    if let Err(why) = complete {
        crate::driver::inconclusive(format!("the I/O trace does not account for the chunk files on disk ({why}): some I/O of the store was not observed; refusing to judge"));
    }
    match res {
        Ok(Ok(r)) => Ok((r, ctl)),
        Ok(Err(f)) => Err(f),
        Err(p) => Err(Fail::new("panic", format!("panic while executing the case: {} ({})", panic_msg(&p), last_panic_location()))),
    }
}
