//! C11 — the on-disk journal is an exact, gap-free record of accepted writes
//! (differential against the reference encoder and the expected layout).

use std::sync::Arc;

use proptest::strategy::BoxedStrategy;
use raft_log::codeq::OffsetSize;
use raft_log::ChunkId;
use raft_log::DumpApi;
use raft_log::RaftLog;
use raft_log::WALRecord;

use crate::driver::fresh_dir;
use crate::driver::remove_dir;
use crate::driver::Done;
use crate::driver::Fail;
use crate::driver::Run;
use crate::model::MState;
use crate::model::Rec;
use crate::ops::case_strategy;
use crate::ops::mix;
use crate::ops::Case;
use crate::ops::OpSpec;
use crate::ops::Profile;
use crate::props::c01::check_stat_layout;
use crate::props::with_run;
use crate::refcodec;
use crate::runner::CaseInfo;
use crate::runner::Ctx;
use crate::runner::Prop;
use crate::runner::Tier;
use crate::shadowfs;
use crate::types::VT;

pub struct C11;

pub fn to_rec(r: &WALRecord<VT>) -> Rec {
    match r {
        WALRecord::SaveVote(v) => Rec::Vote(*v),
        WALRecord::Append(id, p) => Rec::Append(*id, p.clone()),
        WALRecord::Commit(id) => Rec::Commit(*id),
        WALRecord::TruncateAfter(id) => Rec::TruncateAfter(*id),
        WALRecord::PurgeUpto(id) => Rec::PurgeUpto(*id),
        WALRecord::State(s) => Rec::State(MState { vote: s.vote().copied(), last: s.last().copied(), committed: s.committed().copied(), purged: s.purged().copied(), user_data: s.user_data.clone() }),
    }
}

/// The chunk files present must be byte-identical to a suffix of the expected layout.
/// Only valid when everything journalled has been written (after flush + worker idle).
pub fn check_dir_layout(run: &Run) -> Result<usize, Fail> {
    let Some(layout) = &run.layout else { return Ok(0) };
    let img = shadowfs::read_image(&run.dir).map_err(|e| Fail::new("dir-read", e.to_string()))?;
    let files = shadowfs::ordered(&img);
    let n = files.len();
    if n == 0 || n > layout.chunks.len() {
        return Err(Fail::new("dir-layout", format!("directory holds {} chunk files, expected between 1 and {}", n, layout.chunks.len())));
    }
    let exp = &layout.chunks[layout.chunks.len() - n..];
    for (i, (off, name, data)) in files.iter().enumerate() {
        let e = &exp[i];
        let want_name = refcodec::chunk_file_name(e.start);
        if **name != want_name || *off != e.start {
            let have: Vec<&String> = files.iter().map(|f| f.1).collect();
            let want: Vec<String> = exp.iter().map(|c| refcodec::chunk_file_name(c.start)).collect();
            return Err(Fail::new("dir-layout-names", format!("chunk files {:?} are not the expected journal suffix {:?}", have, want)));
        }
        let want = e.bytes();
        if **data != want {
            let pd = refcodec::parse_chunk(data);
            let pw = refcodec::parse_chunk(&want);
            return Err(Fail::new(
                "dir-layout-bytes",
                format!("chunk file {} differs from the reference encoding of the accepted writes: file has {} bytes / records {:?}, expected {} bytes / records {:?}", name, data.len(), pd.recs, want.len(), pw.recs),
            ));
        }
    }
    Ok(n)
}

/// `dump()` must list exactly the expected records with their in-chunk segments.
pub fn check_dump(run: &Run) -> Result<(), Fail> {
    let Some(layout) = &run.layout else { return Ok(()) };
    let mut got: Vec<(u64, u64, u64, u64, Rec)> = vec![];
    let mut err = None;
    let res = run.rl().dump().write_with(|chunk_id, idx, res| {
        match res {
            Ok((seg, rec)) => got.push((chunk_id.0, idx, seg.offset().0, *seg.size(), to_rec(&rec))),
            Err(e) => err = Some(e.to_string()),
        }
        Ok(())
    });
    if let Err(e) = res {
        return Err(Fail::new("dump-error", format!("dump().write_with failed: {e}")));
    }
    if let Some(e) = err {
        return Err(Fail::new("dump-error", format!("dump() reported a record error: {e}")));
    }
    let st = run.rl().stat();
    let n = st.closed_chunks.len() + 1;
    if n > layout.chunks.len() {
        return Err(Fail::new("dump-layout", "more chunks than expected".to_string()));
    }
    let mut want = vec![];
    for c in &layout.chunks[layout.chunks.len() - n..] {
        let mut off = 0u64;
        for (i, b) in c.recs.iter().enumerate() {
            let (r, len) = refcodec::decode(b).expect("reference encoding decodes");
            want.push((c.start, i as u64, off, len as u64, r));
            off += len as u64;
        }
    }
    if got != want {
        return Err(Fail::new("dump-layout", format!("dump() records (chunk, index, offset, size, record) = {:?}\nexpected {:?}", got, want)));
    }
    Ok(())
}

/// File-name codec over all of u64: names written with `Config::chunk_path` are listed back
/// by `load_chunk_ids` as the sorted offsets, and equal the reference formatter.
pub fn check_name_codec(sel: u64) -> Result<u64, Fail> {
    let dir = fresh_dir("names");
    let cfg = raft_log::Config::new(&dir);
    let mut xs: Vec<u64> = vec![0, 999, 1000, u64::MAX, u64::MAX - 1];
    for k in 0..6u64 {
        let r = mix(sel, k);
        let x = match k % 3 {
            0 => r,
            1 => r >> (r % 64),
            _ => {
                let p = 10u64.pow(((r >> 8) % 20) as u32);
                match r % 3 {
                    0 => p,
                    1 => p - 1,
                    _ => p.saturating_add(1),
                }
            }
        };
        xs.push(x);
    }
    xs.sort();
    xs.dedup();
    let mut res = Ok(xs.len() as u64);
    for x in &xs {
        let p = cfg.chunk_path(ChunkId(*x));
        let want = format!("{}/{}", dir, refcodec::chunk_file_name(*x));
        if p != want {
            res = Err(Fail::new("name-codec", format!("chunk_path({x}) = {p}, reference formatter gives {want}")));
            break;
        }
        if let Err(e) = std::fs::write(&p, b"") {
            res = Err(Fail::new("name-codec", format!("cannot create {p}: {e}")));
            break;
        }
    }
    if res.is_ok() {
        let _ = std::fs::write(format!("{}/LOCK", dir), b"");
        let _ = std::fs::write(format!("{}/r-123.wal", dir), b"");
        match RaftLog::<VT>::load_chunk_ids(&cfg) {
            Ok(ids) => {
                let got: Vec<u64> = ids.iter().map(|c| c.0).collect();
                if got != xs {
                    res = Err(Fail::new("name-codec", format!("load_chunk_ids = {:?}, files created for offsets {:?}", got, xs)));
                }
            }
            Err(e) => res = Err(Fail::new("name-codec", format!("load_chunk_ids failed: {e}"))),
        }
    }
    remove_dir(&dir);
    res
}

pub fn profile(tier: Tier) -> Profile {
    let mut p = Profile::base(if tier == Tier::Quick { 40 } else { 100 });
    p.w_flush = 4;
    p.big_batches = true;
    p.w_reopen = 1;
    p.w_read = 0;
    p.huge_payload = tier == Tier::Thorough;
    p.faults = crate::ops::FaultGen::SyncAndCreate;
    p
}

/// Layout-independent journal invariants (used once the expected layout is unknown): the chunk
/// files present, in name order, abut exactly, every one decodes completely with the reference
/// decoder and starts with a State record, and the last one ends at the journal end the store
/// reports.
pub fn check_dir_selfconsistent(run: &Run) -> Result<(), Fail> {
    let img = shadowfs::read_image(&run.dir).map_err(|e| Fail::new("dir-read", e.to_string()))?;
    let files = shadowfs::ordered(&img);
    let mut prev_end: Option<u64> = None;
    for (start, name, data) in &files {
        if let Some(pe) = prev_end {
            if pe != *start {
                return Err(Fail::new("files-do-not-abut", format!("after a rotation whose chunk-file creation failed once: the file before {name} ends at {pe}, {name} starts at {start}; files: {}", crate::crash::describe_image(&img))));
            }
        }
        let p = refcodec::parse_chunk(data);
        if p.valid_len() != data.len() {
            return Err(Fail::new("file-not-decodable", format!("{name} holds {} bytes but only {} decode as records ({:?}); files: {}", data.len(), p.valid_len(), p.stop, crate::crash::describe_image(&img))));
        }
        if !matches!(p.recs.first(), Some(crate::model::Rec::State(_))) {
            return Err(Fail::new("file-head-not-state", format!("{name} does not start with a State record")));
        }
        prev_end = Some(start + data.len() as u64);
    }
    let end = run.rl().stat().open_chunk.global_end;
    if let Some(pe) = prev_end {
        if pe != end {
            return Err(Fail::new("journal-end-differs", format!("the chunk files end at {pe} but the store reports the journal end {end} after a settled flush; files: {}", crate::crash::describe_image(&img))));
        }
    }
    Ok(())
}

impl Prop for C11 {
    fn id(&self) -> &'static str {
        "C11"
    }
    fn level(&self) -> &'static str {
        "exploration"
    }
    fn rule(&self) -> String {
        "proptest generates (config incl. chunk limits 0 and 1, history with flushes and clean reopens under re-drawn limits). Differential oracle: the expected journal is the reference encoding of every accepted record in call order, \
         with a reference-encoded State head wherever the reference rotation rule (records>=max || size>=max after a record) fires. After every settled flush the directory must be a byte-identical, abutting suffix of that journal with names from an \
         independent formatter; every write call's returned segment must equal the expected (offset,size) of the last record it journalled; on_disk_size() must equal the bytes present; stat() and dump() must describe the same layout. \
         Per case the file-name codec is also checked on u64 boundary and generated offsets. Non-trivial iff >=2 rotations with different record sizes and >=1 settled flush compared; distinct = case hash."
            .to_string()
    }
    fn assumptions(&self) -> Vec<String> {
        vec!["reference encoder and rotation rule in the harness are right".into(), "compared only after flush + worker idle (the property's own scope)".into()]
    }
    fn cases(&self, tier: Tier) -> u32 {
        match tier {
            Tier::Quick => 600,
            Tier::Thorough => 10_000,
        }
    }
    fn strategy(&self, tier: Tier) -> BoxedStrategy<Case> {
        case_strategy(&profile(tier))
    }
    fn extra(&self, _ctx: &Ctx, shard: usize, rep: &mut crate::runner::ShardReport) {
        // deep-queue scenario: the caller journals and flushes against a parked worker until the
        // request channel is full; afterwards the journal must still be exact
        if shard != 0 {
            return;
        }
        match crate::deepq::deep_queue(1500) {
            Ok((rec, blocked)) => {
                rep.evaluations += rec.flushes.len() as u64;
                *rep.labels.entry("deep_queue_flushes".into()).or_insert(0) += rec.flushes.len() as u64;
                *rep.labels.entry("deep_queue_caller_blocked_on_full_channel".into()).or_insert(0) += blocked;
            }
            Err(f) => rep.violations.push(crate::runner::Violation { key: f.key, msg: format!("deep-queue scenario (1500 append+flush against a parked worker): {}", f.msg), case: serde_json::to_value(crate::ops::sample_case()).unwrap(), origin: "deep-queue".into() }),
        }
    }
    fn run_case(&self, case: &Case, ctx: &Ctx) -> Result<CaseInfo, Fail> {
        let mut info = CaseInfo::default();
        let n_names = check_name_codec(case.sel)?;
        info.evals += n_names;
        // Half of the cases run with worker faults that must not change the journal: failing
        // fdatasyncs (once / repeatedly / forever), short writes, EINTR. The bytes still have to
        // land where the layout says; acknowledgements may report errors (C04 judges those).
        let faulty = !case.faults.is_empty() && case.sel & 1 == 1;
        let faults: Vec<crate::trace::FaultRule> = if faulty { case.faults.clone() } else { vec![] };
        let ((classes, compared), _ctl) = with_run(&case.cfg, false, &faults, |run| {
            let mut compared = 0u64;
            let mut sizes = std::collections::BTreeSet::new();
            for op in &case.ops {
                if matches!(op, OpSpec::Reject { .. } | OpSpec::Probe(_) | OpSpec::Steps(_)) {
                    continue;
                }
                if faulty && matches!(op, OpSpec::Reopen { .. }) {
                    continue;
                }
                let d = run.exec(op)?;
                match d {
                    Done::Wrote { seg, expect_seg: Some(exp), .. } => {
                        sizes.insert(exp.1);
                        if seg != exp {
                            let key = if run.layout.as_ref().map(|l| l.chunks.last().unwrap().recs.len() == 1 && l.chunks.last().unwrap().start == exp.0 + exp.1).unwrap_or(false) { "segment-after-rotation" } else { "segment" };
                            return Err(Fail::new(key, format!("{:?} returned segment (offset,size) = {:?} but the record it journalled is at {:?}", op, seg, exp)));
                        }
                    }
                    Done::Flushed { .. } | Done::Reopened => {
                        let settled = match op {
                            OpSpec::Flush { wait, .. } => *wait,
                            _ => true,
                        };
                        if settled {
                            run.wait_stable();
                            if run.layout.is_none() {
                                // after an injected chunk-creation failure the expected layout is
                                // unknown; what every journal must satisfy still is: files abut,
                                // each decodes completely and starts with a State record
                                check_dir_selfconsistent(run)?;
                                compared += 1;
                                continue;
                            }
                            check_dir_layout(run)?;
                            check_stat_layout(run)?;
                            check_dump(run)?;
                            let img = shadowfs::read_image(&run.dir).map_err(|e| Fail::new("dir-read", e.to_string()))?;
                            // "from the oldest retained chunk": after a failed sync a purged chunk
                            // file legitimately stays on disk until a sync succeeds, although the
                            // store no longer retains it — there the oldest chunk stat() lists counts
                            let oldest = if faulty {
                                let st = run.rl().stat();
                                st.closed_chunks.first().map(|c| c.global_start).unwrap_or(st.open_chunk.global_start)
                            } else {
                                0
                            };
                            let total: u64 = img.iter().filter(|(n, _)| refcodec::parse_chunk_file_name(n).map(|o| o >= oldest).unwrap_or(true)).map(|(_, v)| v.len() as u64).sum();
                            let got = run.rl().on_disk_size();
                            if got != total {
                                return Err(Fail::new("on-disk-size", format!("on_disk_size() = {got} but the chunk files present hold {total} bytes")));
                            }
                            compared += 1;
                        }
                    }
                    _ => {}
                }
            }
            // final settle + compare
            if faulty {
                let id = run.flush_call(true)?;
                run.wait_ack(id)?;
                run.wait_stable();
                run.classes.hit("sync_faults_case");
                if run.layout.is_none() {
                    check_dir_selfconsistent(run)?;
                    return Ok((run.classes.clone(), compared + 1));
                }
            } else {
                run.flush_and_settle()?;
            }
            check_dir_layout(run)?;
            check_dump(run)?;
            compared += 1;
            if sizes.len() >= 2 {
                run.classes.hit("distinct_record_sizes");
            }
            Ok((run.classes.clone(), compared))
        })?;
        info.evals += case.ops.len() as u64;
        for (k, v) in &classes.m {
            if !k.starts_with("__") {
                info.label_n(*k, *v);
            }
        }
        info.label_n("dir_compares", compared);
        info.nontrivial = classes.n("rotation") >= 2 && classes.has("distinct_record_sizes") && compared >= 1;
        let _ = ctx;
        Ok(info)
    }
}
