//! C07 — reads are independent of cache limits and of background-worker progress.

use std::sync::atomic::Ordering;

use proptest::strategy::BoxedStrategy;

use crate::driver::read_all;
use crate::driver::Done;
use crate::driver::Fail;
use crate::driver::Run;
use crate::model::Snapshot;
use crate::ops::case_strategy;
use crate::ops::mix;
use crate::ops::Case;
use crate::ops::OpSpec;
use crate::ops::Profile;
use crate::props::c02::limited_cache;
use crate::props::c02::reopen_checked;
use crate::pinwin::Window;
use crate::props::with_run;
use crate::runner::CaseInfo;
use crate::runner::Ctx;
use crate::runner::Prop;
use crate::runner::Tier;
use crate::shadowfs::Shadow;
use crate::trace::Ev;
use crate::trace::Stable;

pub struct C07;

pub const KNOWN_REAPPEND: &str = "reappended-entry-at-or-below-earlier-id-evicted";

pub fn profile(tier: Tier) -> Profile {
    let mut p = Profile::base(if tier == Tier::Quick { 40 } else { 100 });
    p.small_cache = true;
    p.big_batches = true;
    p.w_steps = 8;
    p.w_flush = 4;
    p.w_reopen = 1;
    p.w_readers = 2;
    p.w_read = 3;
    // half of the cases run with worker I/O faults (failed / short / torn writes, failed syncs)
    p.faults = crate::ops::FaultGen::Io;
    p
}

fn miss_count(run: &Run) -> u64 {
    run.rl().stat().payload_cache_miss
}

/// A snapshot (`dump_data()`) taken earlier and iterated later must still yield exactly the
/// entries that were live when it was taken, whatever the store has done since.
pub struct Held {
    snap: raft_log::DumpRaftLog<crate::types::VT>,
    want: Vec<(crate::types::LogId, String)>,
    taken_at_op: usize,
}

pub fn held_snapshot_step(run: &mut Run, held: &mut Option<Held>, sel: u64) -> Result<(), Fail> {
    let r = mix(sel, 7000 + run.op_no as u64) % 5;
    match held {
        None if r == 0 => {
            *held = Some(Held { snap: run.rl().dump_data(), want: run.model.cur.entries(), taken_at_op: run.op_no });
        }
        Some(h) if r == 1 || r == 2 => {
            let mut got = vec![];
            for it in h.snap.iter() {
                match it {
                    Ok(x) => got.push(x),
                    Err(e) => {
                        return Err(Fail::new("held-snapshot-read-error", format!("a dump_data() snapshot taken after op {} and iterated after op {} returned an error: {e} (it held {} entries)", h.taken_at_op, run.op_no, h.want.len())));
                    }
                }
            }
            if got != h.want {
                return Err(Fail::new("held-snapshot-mismatch", format!("a dump_data() snapshot taken after op {} and iterated after op {} yields {:?}, at the time it was taken the live entries were {:?}", h.taken_at_op, run.op_no, crate::driver::brief(&got), crate::driver::brief(&h.want))));
            }
            run.classes.hit("held_snapshot_iterated");
            if r == 2 {
                *held = None;
            }
        }
        _ => {}
    }
    Ok(())
}

pub fn check_reads_w(run: &mut Run, sel: u64, win: &mut Window) -> Result<(), Fail> {
    win.track(run);
    check_reads(run, sel)
}

pub fn check_reads(run: &mut Run, sel: u64) -> Result<(), Fail> {
    let lagging = !run.worker_idle();
    let m0 = miss_count(run);
    run.check_state()?;
    run.check_full_read()?;
    run.check_dump_data_iter()?;
    // one derived range
    let n = run.model.cur.log.len() as u64;
    if n > 0 {
        let first = run.model.first_live().unwrap();
        let a = first + mix(sel, run.op_no as u64) % (n + 1);
        let b = a + 1 + mix(sel, a) % 3;
        run.check_range(a.saturating_sub(1), b)?;
    }
    let m1 = miss_count(run);
    if m1 > m0 {
        run.classes.hit("cache_miss_read");
        if lagging {
            run.classes.hit("miss_while_worker_lagging");
        }
    }
    Ok(())
}

fn readers(run: &mut Run, k: u8, steps: u8, sel: u64, win: &mut Window, win_open: &mut bool) -> Result<(), Fail> {
    if win.known_window(run).is_some() {
        *win_open = true;
    }
    let snap: Snapshot = run.model.cur.clone();
    let n = snap.log.len() as u64;
    let first = snap.log.keys().next().copied().unwrap_or(0);
    let worker = run.worker();
    let stepped = run.stepped;
    let run: &Run = run;
    let rl = run.rl();
    let mut errs: Vec<Fail> = vec![];
    std::thread::scope(|s| {
        let mut hs = vec![];
        for t in 0..k as u64 {
            let snap = &snap;
            hs.push(s.spawn(move || -> Result<(), Fail> {
                for it in 0..12u64 {
                    let r = mix(sel, t * 1000 + it);
                    let (a, b) = if it % 4 == 0 { (0, u64::MAX) } else { (first + r % (n + 1), first + r % (n + 1) + 1 + (r >> 20) % 4) };
                    let want = snap.range(a, b);
                    match read_all(rl, a, b) {
                        Ok(got) => {
                            if got != want {
                                return Err(Fail::new("read-mismatch", format!("concurrent reader {t}: read({a},{b}) = {:?}, model = {:?}", crate::driver::brief(&got), crate::driver::brief(&want))));
                            }
                        }
                        Err(e) => return Err(Fail::new("read-error", format!("concurrent reader {t}: read({a},{b}) returned an error: {e}"))),
                    }
                }
                Ok(())
            }));
        }
        // meanwhile the worker advances
        if stepped {
            for _ in 0..steps {
                crate::trace::grant(worker, 1);
                let st = crate::trace::wait_stable(worker, &|| rl.verif_worker_idle(), crate::driver::WATCHDOG);
                crate::trace::revoke(worker);
                if st == Stable::Timeout {
                    crate::driver::inconclusive("worker stuck during concurrent reads");
                }
                if win.known_window(run).is_some() {
                    *win_open = true;
                }
                if st != Stable::Parked {
                    break;
                }
            }
        }
        for h in hs {
            match h.join() {
                Ok(Ok(())) => {}
                Ok(Err(f)) => errs.push(f),
                Err(p) => errs.push(Fail::new("panic", format!("reader thread panicked: {}", crate::driver::panic_msg(&p)))),
            }
        }
    });
    match errs.into_iter().next() {
        Some(f) => Err(f),
        None => Ok(()),
    }
}

/// Number of positional reads seen in the trace (evidence only). An earlier version demanded that
/// every `pread` lie inside bytes already written and return its full length; that is more than
/// the property states — a buffered positional reader may legitimately ask past the end of a
/// file and get a short count (benign variant B2-v1 does) — and it added nothing: a `read()` that
/// really comes up short surfaces as a read error, which the main oracle judges.
pub fn check_preads(trace: &[Ev]) -> Result<u64, Fail> {
    Ok(trace.iter().filter(|e| matches!(e, Ev::Pread { .. })).count() as u64)
}

/// Readers against a *draining* worker, free-running (no gating): each round the caller queues
/// a few hundred one-entry appends with fire-and-forget flushes (a chunk rotation every 4
/// records, a cache of 3 items), then 4 reader threads read ranges for as long as the worker is
/// still working the queue off — every sync takes the cache's write lock to move the eviction
/// boundary. The oracle does not depend on the interleaving: ids only grow, so every read must
/// succeed with exactly the entries appended. This stresses what the gated schedules cannot
/// own: the hand-over of the cache lock between readers and the worker's boundary update.
pub fn drain_stress(seed: u64, rounds: u32) -> Result<(u64, u64), Fail> {
    use raft_log::api::raft_log_writer::RaftLogWriter;
    let dir = crate::driver::fresh_dir("drain");
    let threads0 = crate::trace::nr_threads();
    let cfg = std::sync::Arc::new(raft_log::Config {
        dir: dir.clone(),
        chunk_max_records: Some(4),
        log_cache_max_items: Some(3),
        read_buffer_size: Some(4096),
        ..Default::default()
    });
    let r = (|| -> Result<(u64, u64), Fail> {
        let mut rl = raft_log::RaftLog::<crate::types::VT>::open(cfg).map_err(|e| Fail::new("open-fresh", e.to_string()))?;
        let mut next = 0u64;
        let mut first = 0u64;
        let mut reads = 0u64;
        let mut reads_while_busy = 0u64;
        for round in 0..rounds {
            let burst = 150 + (mix(seed, round as u64) % 250);
            for _ in 0..burst {
                rl.append([((1, next), format!("d{next}"))]).map_err(|e| Fail::new("legal-write-refused", format!("append: {e}")))?;
                rl.flush(None).map_err(|e| Fail::new("flush-call-err", e.to_string()))?;
                next += 1;
            }
            let rlr = &rl;
            let (lo, hi) = (first, next);
            let res: Vec<Result<(u64, u64), Fail>> = std::thread::scope(|s| {
                let hs: Vec<_> = (0..4u64)
                    .map(|t| {
                        s.spawn(move || -> Result<(u64, u64), Fail> {
                            let mut n = 0u64;
                            let mut busy = 0u64;
                            let mut it = 0u64;
                            loop {
                                let idle = rlr.verif_worker_idle();
                                let r = mix(seed, t * 7919 + it);
                                let (a, b) = match it % 3 {
                                    0 => (hi.saturating_sub(1 + r % 12).max(lo), hi),
                                    1 => (lo + r % (hi - lo), (lo + r % (hi - lo) + 1 + (r >> 32) % 6).min(hi)),
                                    _ => (lo, hi),
                                };
                                match read_all(rlr, a, b) {
                                    Ok(got) => {
                                        let ok = got.len() as u64 == b - a && got.iter().enumerate().all(|(k, (id, p))| *id == (1, a + k as u64) && *p == format!("d{}", a + k as u64));
                                        if !ok {
                                            return Err(Fail::new("read-mismatch", format!("reader {t} while the worker drains its queue: read({a},{b}) returned {:?}", crate::driver::brief(&got))));
                                        }
                                    }
                                    Err(e) => return Err(Fail::new("read-error", format!("reader {t} while the worker drains its queue ({} requests were queued): read({a},{b}) returned an error: {e}", 2 * (hi - lo)))),
                                }
                                n += 1;
                                if !idle {
                                    busy += 1;
                                }
                                it += 1;
                                if idle && it >= 6 {
                                    return Ok((n, busy));
                                }
                            }
                        })
                    })
                    .collect();
                hs.into_iter().map(|h| h.join().unwrap_or_else(|p| Err(Fail::new("panic", format!("reader thread panicked: {}", crate::driver::panic_msg(&p)))))).collect()
            });
            for x in res {
                let (n, b) = x?;
                reads += n;
                reads_while_busy += b;
            }
            // keep the log short
            if next - first > 600 {
                let upto = next - 300;
                rl.purge((1, upto)).map_err(|e| Fail::new("legal-write-refused", format!("purge: {e}")))?;
                rl.flush(None).map_err(|e| Fail::new("flush-call-err", e.to_string()))?;
                first = upto + 1;
            }
        }
        rl.wait_worker_idle();
        drop(rl);
        Ok((reads, reads_while_busy))
    })();
    crate::trace::wait_threads(threads0, crate::driver::WATCHDOG);
    crate::driver::remove_dir(&dir);
    r
}

impl Prop for C07 {
    fn id(&self) -> &'static str {
        "C07"
    }
    fn level(&self) -> &'static str {
        "exploration"
    }
    fn rule(&self) -> String {
        "proptest generates (config with log_cache_max_items/capacity from {0,1,2,3,8,10,64,unlimited} and all chunk limits, history, worker schedule). The flush worker is gated at every write/fdatasync/unlink/callback by libc interposition and advances only on generated Steps ops, \
         so after every caller op it sits at an arbitrary point (data buffered, written, between per-file syncs, after the boundary update, before an unlink). After every op and after every single worker step: read(0,MAX), a derived range and dump_data().iter() must return exactly the model's live entries without error; \
         dump_data() snapshots are also held across later ops / worker steps / restarts and iterated afterwards (they must yield the entries live when taken); Readers ops run 1/2/4 threads reading ranges concurrently while the worker is stepped; clean restarts under re-drawn limits are included. \
         Non-trivial iff >=1 read was served from disk (cache miss) while the worker still had un-run work, or concurrent readers ran with >=1 cache miss; distinct = case hash. \
         Known class excluded by construction in the main search (re-append at or below an earlier id under a finite cache, count reported) and probed separately."
            .to_string()
    }
    fn assumptions(&self) -> Vec<String> {
        vec![
            "schedules are explored at file-system-call/callback granularity for the worker and operation granularity for the caller".into(),
            "races below that granularity (RwLock hand-over between readers and the boundary update) are only stressed by the concurrent readers".into(),
        ]
    }
    fn cases(&self, tier: Tier) -> u32 {
        match tier {
            Tier::Quick => 500,
            Tier::Thorough => 8_000,
        }
    }
    fn strategy(&self, tier: Tier) -> BoxedStrategy<Case> {
        case_strategy(&profile(tier))
    }
    fn extra(&self, ctx: &Ctx, shard: usize, rep: &mut crate::runner::ShardReport) {
        if shard >= 4 {
            return;
        }
        let rounds = if ctx.tier == Tier::Quick { 12 } else { 150 };
        match drain_stress(mix(ctx.seed, 600 + shard as u64), rounds) {
            Ok((reads, busy)) => {
                rep.evaluations += reads;
                *rep.labels.entry("drain_stress_reads".into()).or_insert(0) += reads;
                *rep.labels.entry("drain_stress_reads_while_worker_busy".into()).or_insert(0) += busy;
            }
            Err(f) => rep.violations.push(crate::runner::Violation { key: format!("drain-stress/{}", f.key), msg: f.msg, case: serde_json::to_value(crate::ops::sample_case()).unwrap(), origin: "drain stress (real threads; may not reproduce from the replay file)".into() }),
        }
    }
    fn run_case(&self, case: &Case, ctx: &Ctx) -> Result<CaseInfo, Fail> {
        let mut info = CaseInfo::default();
        let _ = limited_cache(case);
        let tolerate = ctx.known.is_known(KNOWN_REAPPEND);
        // Cases with injected worker faults: the boundary of the unchanged design is ambiguous
        // after a failed sync, so there the known class is kept out by construction (ids only
        // grow) and every read error counts. Clean restarts are left out (as in C04).
        let faulty = !case.faults.is_empty() && case.sel & 1 == 1;
        let faults: Vec<crate::trace::FaultRule> = if faulty { case.faults.clone() } else { vec![] };
        let res = with_run(&case.cfg, true, &faults, |run| {
            // Re-appends at or below an earlier id are part of the search: the known finding is
            // recognised by its exact input class (pinwin::Window), not avoided wholesale.
            run.avoid_low_reappend = faulty;
            let mut cut = false;
            let mut held: Option<Held> = None;
            let mut win = Window::default();
            let mut win_in_readers = false;
            win.track(run);
            let r = (|| -> Result<(), Fail> {
                for op in &case.ops {
                    if run.inst.is_some() {
                        held_snapshot_step(run, &mut held, case.sel)?;
                    }
                    match op {
                        OpSpec::Reject { .. } | OpSpec::Probe(_) | OpSpec::DropReopen { .. } => continue,
                        OpSpec::Reopen { .. } if faulty => continue,
                        OpSpec::Reopen { cfg } => {
                            let r = reopen_checked(run, cfg);
                            win.track(run);
                            r?;
                            check_reads_w(run, case.sel, &mut win)?;
                        }
                        OpSpec::Readers { k, steps, sel } => {
                            win_in_readers = false;
                            let r = readers(run, *k, *steps, mix(case.sel, *sel as u64), &mut win, &mut win_in_readers);
                            run.classes.hit("concurrent_readers");
                            r?;
                            win_in_readers = false;
                        }
                        OpSpec::Steps(k) => {
                            let n = if *k == 255 { 400 } else { *k as u32 };
                            for _ in 0..n {
                                let (done, st) = run.step_worker(1);
                                if done > 0 {
                                    run.classes.hit("worker_steps");
                                }
                                check_reads_w(run, case.sel, &mut win)?;
                                if st != Stable::Parked {
                                    break;
                                }
                            }
                        }
                        _ => {
                            let d = match run.exec(op) {
                                Ok(d) => d,
                                Err(f) if faulty && (f.key == "flush-call-err" || f.key == "legal-write-refused") => {
                                    // the worker stopped on the injected error: the history ends
                                    // here; what is in the store must stay readable
                                    run.classes.hit("history_cut_by_fault");
                                    cut = true;
                                    break;
                                }
                                Err(f) => return Err(f),
                            };
                            if std::env::var_os("RLV_DEBUG").is_some() {
                                eprintln!("op {:?} -> {:?}\n   stat {}\n   resident {:?}\n   model {:?}\n   window {:?}", op, d, run.rl().stat(), run.rl().verif_cache_resident(), run.model.cur.st, win.known_window(run));
                            }
                            if matches!(d, Done::Skipped) {
                                continue;
                            }
                            check_reads_w(run, case.sel, &mut win)?;
                        }
                    }
                }
                if cut {
                    // The refused call may have been applied in part (a batch is applied entry by
                    // entry): every entry the store returns must be one the caller supplied.
                    run.run_to_idle();
                    for drain in [false, true] {
                        if drain {
                            run.rl().drain_cache_evictable();
                        }
                        let got = read_all(run.rl(), 0, u64::MAX).map_err(|e| Fail::new("read-error", format!("after the flush worker stopped on an injected I/O error{}: read(0,MAX) returned an error: {e}", if drain { " and the cache was drained" } else { "" })))?;
                        for (id, p) in &got {
                            match run.model.cur.log.get(&id.1) {
                                Some((mid, mp)) if mid == id && mp == p => {}
                                other => return Err(Fail::new("read-mismatch", format!("after the flush worker stopped on an injected I/O error: read returned {:?} with payload {:?}, supplied was {:?}", id, crate::driver::brief(&[(*id, p.clone())]), other.map(|x| x.0)))),
                            }
                        }
                    }
                    return Ok(());
                }
                run.run_to_idle();
                check_reads_w(run, case.sel, &mut win)?;
                // drain_cache_evictable() evicts everything at or below the boundary even from an
                // unlimited cache: while the known window is open it would reach the known class
                if win.known_window(run).is_none() {
                    run.rl().drain_cache_evictable();
                    run.classes.hit("drained");
                    check_reads_w(run, case.sel, &mut win)?;
                } else {
                    run.classes.hit("drain_skipped_known_window");
                    run.excluded += 1;
                }
                Ok(())
            })();
            match r {
                Ok(()) => Ok((run.classes.clone(), run.excluded, None)),
                Err(mut f) => {
                    // The known finding shows as a read *error* (never a wrong payload) and only
                    // while its window is open at the moment of the failure.
                    if f.key == "read-error" && run.inst.is_some() {
                        let w = win.known_window(run);
                        if w.is_some() || win_in_readers {
                            let why = w.unwrap_or_else(|| "window open while the concurrent readers ran".to_string());
                            if tolerate {
                                run.classes.hit("ended_in_known_window");
                                return Ok((run.classes.clone(), run.excluded + 1, Some(format!("{} [{}]", f.msg, why))));
                            }
                            f.key = KNOWN_REAPPEND.to_string();
                            f.msg = format!("{} [{}]", f.msg, why);
                            return Err(f);
                        }
                        f.msg = format!("{} [not the known re-append class: every live entry at or below the eviction boundary of the unchanged design is safely on disk]", f.msg);
                    }
                    Err(f)
                }
            }
        });
        let ((classes, excluded, known_hit), ctl) = res?;
        // a case that ended with the tolerated read failure has, as its last pread, exactly the
        // read beyond the written bytes that is the known finding ("failed to fill whole buffer")
        let ended_known = known_hit.is_some();
        if let Some(m) = known_hit {
            info.known_hits.push((KNOWN_REAPPEND.to_string(), m));
        }
        let npread = if ended_known { 0 } else { check_preads(&ctl.trace)? };
        info.evals += case.ops.len() as u64 + classes.n("worker_steps");
        for (k, v) in &classes.m {
            if !k.starts_with("__") {
                info.label_n(*k, *v);
            }
        }
        info.label_n("preads_seen", npread);
        info.excluded = excluded;
        info.nontrivial = classes.has("miss_while_worker_lagging") || (classes.has("concurrent_readers") && classes.has("cache_miss_read"));
        Ok(info)
    }
}
