//! C02 — clean restart equivalence.

use std::sync::Arc;

use proptest::strategy::BoxedStrategy;
use raft_log::Dump;
use raft_log::DumpApi;

use crate::driver::observe;
use crate::driver::Done;
use crate::driver::Fail;
use crate::driver::Run;
use crate::ops::case_strategy;
use crate::ops::Case;
use crate::ops::OpSpec;
use crate::ops::Profile;
use crate::props::c01::check_stat_layout;
use crate::props::with_run;
use crate::runner::CaseInfo;
use crate::runner::Ctx;
use crate::runner::Prop;
use crate::runner::Tier;
use crate::types::VT;

pub struct C02;

pub fn profile(tier: Tier) -> Profile {
    let mut p = Profile::base(if tier == Tier::Quick { 40 } else { 120 });
    p.w_reopen = 2;
    p.w_update_state = 1;
    p.big_batches = true;
    p.small_cache = true;
    p.huge_payload = tier == Tier::Thorough;
    p.big_read_buf = tier == Tier::Thorough;
    p
}

pub fn limited_cache(case: &Case) -> bool {
    let lim = |c: &crate::ops::CfgSpec| c.cache_items.is_some() || c.cache_cap.is_some();
    lim(&case.cfg) || case.alt.as_ref().map(lim).unwrap_or(false) || case.ops.iter().any(|o| matches!(o, OpSpec::Reopen { cfg } if lim(cfg)))
}

/// flush+ack+idle, capture, drop, offline dump, open, compare.
pub fn reopen_checked(run: &mut Run, cfg: &crate::ops::CfgSpec) -> Result<(), Fail> {
    run.flush_and_settle()?;
    let before = observe(run.rl()).map_err(|e| Fail::new("read-error", format!("read before close failed: {e}")))?;
    let dump_live = run.rl().dump().write_to_string().map_err(|e| Fail::new("dump-error", format!("dump() before close failed: {e}")))?;
    if before != run.model.cur {
        return Err(Fail::new("state-mismatch", format!("before close the store shows {:?} / {} entries, model {:?} / {} entries", before.st, before.log.len(), run.model.cur.st, run.model.cur.log.len())));
    }
    let old_cfg = run.cfg.clone();
    run.drop_store(true);
    {
        let d = Dump::<VT>::new(Arc::new(old_cfg.to_config(&run.dir))).map_err(|e| Fail::new("dump-open", format!("Dump::new after the store was dropped failed: {e}")))?;
        let dump_off = d.write_to_string().map_err(|e| Fail::new("dump-error", format!("offline Dump failed: {e}")))?;
        if dump_off != dump_live {
            return Err(Fail::new("dump-differs", format!("offline Dump after close differs from dump() before close:\n--- before\n{dump_live}\n--- after\n{dump_off}")));
        }
    }
    run.classes.hit("reopen");
    if *cfg != old_cfg {
        run.classes.hit("reopen_cfg_change");
    }
    run.open_store(cfg).map_err(|e| Fail::new("clean-reopen-failed", format!("open after flush+ack+drop failed: {e}")))?;
    let after = observe(run.rl()).map_err(|e| Fail::new("read-error", format!("read after reopen failed: {e}")))?;
    if after != before {
        return Err(Fail::new(
            "reopen-differs",
            format!("after reopen: state {:?}, {} entries {:?}; before close: state {:?}, {} entries", after.st, after.log.len(), crate::driver::brief(&after.entries()), before.st, before.log.len()),
        ));
    }
    Ok(())
}

impl Prop for C02 {
    fn id(&self) -> &'static str {
        "C02"
    }
    fn level(&self) -> &'static str {
        "exploration"
    }
    fn rule(&self) -> String {
        "proptest generates histories with close/open cycles at arbitrary positions, each under a re-drawn configuration (chunk limits, read buffer, cache limits incl. 0). Before a close everything is flushed, acknowledged and the worker is idle. \
         Oracle: state and read(0,MAX) right after open equal the values before close and the reference model; the offline Dump taken between close and open equals dump() before close; afterwards every op is again compared with the model (state, full read, chunk list). \
         The history ends with one more close/open. Non-trivial iff >=1 reopen happens after >=1 rotation with a non-append record journalled before it and >=1 accepted write follows the reopen; distinct = case hash. \
         Known class excluded by construction: lower-term re-append under a finite cache (C07 finding) — such appends get the highest term seen; the number altered is reported."
            .to_string()
    }
    fn assumptions(&self) -> Vec<String> {
        vec!["clean restart = flush acknowledged Ok + worker idle + drop + worker thread gone (C14 owns the drop race)".into(), "reference model is right".into()]
    }
    fn cases(&self, tier: Tier) -> u32 {
        match tier {
            Tier::Quick => 600,
            Tier::Thorough => 5_000,
        }
    }
    fn strategy(&self, tier: Tier) -> BoxedStrategy<Case> {
        case_strategy(&profile(tier))
    }
    fn run_case(&self, case: &Case, _ctx: &Ctx) -> Result<CaseInfo, Fail> {
        let mut info = CaseInfo::default();
        let limited = limited_cache(case);
        let ((classes, excluded, nt), _ctl) = with_run(&case.cfg, false, &[], |run| {
            run.avoid_low_reappend = limited;
            let mut nonappend = false;
            let mut reopened_after_rotation = false;
            let mut write_after = false;
            for op in &case.ops {
                if matches!(op, OpSpec::Reject { .. } | OpSpec::Probe(_) | OpSpec::Steps(_)) {
                    continue;
                }
                if let OpSpec::Reopen { cfg } = op {
                    reopen_checked(run, cfg)?;
                    if run.classes.has("rotation") && nonappend {
                        reopened_after_rotation = true;
                    }
                    check_stat_layout(run)?;
                    continue;
                }
                let d = run.exec(op)?;
                if let (OpSpec::UpdateState { what, .. }, Done::Wrote { .. }) = (op, &d) {
                    if what % 5 >= 3 {
                        // `last` was overridden while the entries stay: from here on the store is
                        // only read and restarted (writes on such a state are the caller's
                        // business, not specified); restart equivalence must still hold
                        run.classes.hit("update_state_last_overridden");
                        run.check_state()?;
                        run.check_full_read()?;
                        let cfg = case.alt.clone().unwrap_or_else(|| run.cfg.clone());
                        reopen_checked(run, &cfg)?;
                        run.check_state()?;
                        run.check_full_read()?;
                        let cfg0 = case.cfg.clone();
                        reopen_checked(run, &cfg0)?;
                        return Ok((run.classes.clone(), run.excluded, reopened_after_rotation && write_after));
                    }
                }
                if let Done::Wrote { .. } = d {
                    if !matches!(op, OpSpec::Append { .. }) {
                        nonappend = true;
                    }
                    if reopened_after_rotation {
                        write_after = true;
                    }
                }
                run.check_state()?;
                run.check_full_read()?;
                check_stat_layout(run)?;
            }
            let cfg = case.alt.clone().unwrap_or_else(|| run.cfg.clone());
            reopen_checked(run, &cfg)?;
            Ok((run.classes.clone(), run.excluded, reopened_after_rotation && write_after))
        })?;
        info.evals += case.ops.len() as u64 + 1;
        for (k, v) in &classes.m {
            if !k.starts_with("__") {
                info.label_n(*k, *v);
            }
        }
        info.excluded = excluded;
        info.nontrivial = nt;
        Ok(info)
    }
}
