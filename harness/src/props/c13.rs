//! C13 — a directory is owned by at most one store or dump at a time (threads and
//! processes racing to open / drop / reopen the same directory).

use std::io::BufRead;
use std::io::BufReader;
use std::io::Write;
use std::process::Child;
use std::process::ChildStdin;
use std::process::ChildStdout;
use std::process::Command;
use std::process::Stdio;
use std::sync::Arc;
use std::sync::Barrier;
use std::sync::Mutex;

use proptest::strategy::BoxedStrategy;
use raft_log::api::raft_log_writer::RaftLogWriter;
use raft_log::Dump;
use raft_log::DumpApi;
use raft_log::RaftLog;
use serde_json::json;

use crate::driver::fresh_dir;
use crate::driver::panic_msg;
use crate::driver::remove_dir;
use crate::driver::Fail;
use crate::images::settled_image;
use crate::ops::lock_case_strategy;
use crate::ops::Case;
use crate::ops::LockAct;
use crate::ops::LockProg;
use crate::refcodec;
use crate::runner::CaseInfo;
use crate::runner::Ctx;
use crate::runner::Prop;
use crate::runner::Tier;
use crate::shadowfs;
use crate::shadowfs::Image;
use crate::types::VT;

pub struct C13;

pub fn lock_config(dir: &str) -> Arc<raft_log::Config> {
    Arc::new(raft_log::Config { dir: dir.to_string(), read_buffer_size: Some(4096), chunk_max_records: Some(5), ..Default::default() })
}

enum Held {
    Nothing,
    Log(RaftLog<VT>),
    Dump(Dump<VT>),
}

enum Actor {
    Thread(Held),
    Proc { child: Child, stdin: ChildStdin, stdout: BufReader<ChildStdout> },
}

#[derive(Debug, Clone, PartialEq, Eq)]
enum Reply {
    Ok,
    Err(String),
    Panic(String),
}

fn act_thread(h: &mut Held, act: LockAct, dir: &str) -> Reply {
    match act {
        LockAct::Drop => {
            *h = Held::Nothing;
            Reply::Ok
        }
        LockAct::OpenLog => {
            let cfg = lock_config(dir);
            match std::panic::catch_unwind(|| RaftLog::<VT>::open(cfg)) {
                Ok(Ok(rl)) => {
                    *h = Held::Log(rl);
                    Reply::Ok
                }
                Ok(Err(e)) => Reply::Err(e.to_string()),
                Err(p) => Reply::Panic(panic_msg(&p)),
            }
        }
        LockAct::OpenDump => {
            let cfg = lock_config(dir);
            match std::panic::catch_unwind(|| Dump::<VT>::new(cfg)) {
                Ok(Ok(d)) => {
                    // an owner uses what it opened: a complete dump (its result does not matter
                    // here — the directory has a torn tail); it still owns the directory afterwards
                    let _ = std::panic::catch_unwind(std::panic::AssertUnwindSafe(|| d.write_to_string()));
                    *h = Held::Dump(d);
                    Reply::Ok
                }
                Ok(Err(e)) => Reply::Err(e.to_string()),
                Err(p) => Reply::Panic(panic_msg(&p)),
            }
        }
    }
}

/// Entry point of `rlv lock-child <dir>`: obey open / dump / drop / exit lines on stdin.
pub fn lock_child(dir: &str) {
    let mut held = Held::Nothing;
    let stdin = std::io::stdin();
    let mut out = std::io::stdout();
    for line in stdin.lock().lines() {
        let Ok(line) = line else { break };
        if let Some(rest) = line.trim().strip_prefix("hammer ") {
            let mut it = rest.split_whitespace();
            let iters: u32 = it.next().and_then(|x| x.parse().ok()).unwrap_or(0);
            let id: u32 = it.next().and_then(|x| x.parse().ok()).unwrap_or(0);
            let (g, c) = hammer(dir, iters, id);
            let _ = writeln!(out, "ok {} {}", g, c);
            let _ = out.flush();
            continue;
        }
        let act = match line.trim() {
            "open" => LockAct::OpenLog,
            "dump" => LockAct::OpenDump,
            "drop" => LockAct::Drop,
            _ => break,
        };
        let r = act_thread(&mut held, act, dir);
        let s = match r {
            Reply::Ok => "ok".to_string(),
            Reply::Err(e) => format!("err {}", e.replace('\n', " ")),
            Reply::Panic(e) => format!("panic {}", e.replace('\n', " ")),
        };
        let _ = writeln!(out, "{}", s);
        let _ = out.flush();
    }
}

/// Open / hold briefly / drop in a tight loop. While it owns the directory a contender writes
/// its own token into `<dir>/witness` and reads it back after a short pause: a different
/// token means somebody else owned the directory at the same time. Returns (grants, conflicts).
pub fn hammer(dir: &str, iters: u32, id: u32) -> (u32, u32) {
    let witness = format!("{}/witness", dir);
    let mut grants = 0;
    let mut conflicts = 0;
    for i in 0..iters {
        let cfg = lock_config(dir);
        // mostly the cheap owner (Dump), sometimes a full store
        let held = if i % 16 == 7 {
            match std::panic::catch_unwind(|| RaftLog::<VT>::open(cfg)) {
                Ok(Ok(rl)) => Held::Log(rl),
                _ => Held::Nothing,
            }
        } else {
            match Dump::<VT>::new(cfg) {
                Ok(d) => {
                    if i % 2 == 0 {
                        let _ = std::panic::catch_unwind(std::panic::AssertUnwindSafe(|| d.write_to_string()));
                    }
                    Held::Dump(d)
                }
                Err(_) => Held::Nothing,
            }
        };
        if let Held::Nothing = held {
            std::thread::yield_now();
            continue;
        }
        grants += 1;
        let token = format!("{}-{}", id, i);
        let _ = std::fs::write(&witness, &token);
        for _ in 0..(3 + i % 5) {
            std::thread::yield_now();
        }
        match std::fs::read_to_string(&witness) {
            Ok(t) if t == token => {}
            _ => conflicts += 1,
        }
        drop(held);
    }
    (grants, conflicts)
}

fn act_proc(stdin: &mut ChildStdin, stdout: &mut BufReader<ChildStdout>, act: LockAct) -> Reply {
    let cmd = match act {
        LockAct::OpenLog => "open",
        LockAct::OpenDump => "dump",
        LockAct::Drop => "drop",
    };
    if writeln!(stdin, "{}", cmd).is_err() || stdin.flush().is_err() {
        return Reply::Panic("child process pipe closed".into());
    }
    let mut line = String::new();
    match stdout.read_line(&mut line) {
        Ok(n) if n > 0 => {
            let l = line.trim();
            if l == "ok" {
                Reply::Ok
            } else if let Some(e) = l.strip_prefix("err ") {
                Reply::Err(e.to_string())
            } else {
                Reply::Panic(l.to_string())
            }
        }
        _ => Reply::Panic("child process died".into()),
    }
}

/// Append a torn record to the newest chunk file, so that an open that gets past the lock
/// visibly repairs the directory.
fn tear(dir: &str) {
    let img = shadowfs::read_image(dir).expect("read dir");
    if let Some((_, name, data)) = shadowfs::ordered(&img).last() {
        if refcodec::parse_chunk(data).valid_len() != data.len() {
            return; // still torn from an earlier round
        }
        let garbage = refcodec::encode(&crate::model::Rec::Append((9, 9), "torn-record".into()));
        let p = format!("{}/{}", dir, name);
        let mut f = std::fs::OpenOptions::new().append(true).open(p).expect("open newest chunk");
        f.write_all(&garbage[..garbage.len() - 5]).expect("tear");
    }
}

/// What the directory looks like after exactly one recovery of `before`.
fn after_one_recovery(before: &Image) -> Image {
    let d = fresh_dir("lockref");
    shadowfs::write_image(&d, before).expect("write ref image");
    let threads0 = crate::trace::nr_threads();
    let r = RaftLog::<VT>::open(lock_config(&d));
    drop(r);
    crate::trace::wait_threads(threads0, crate::driver::WATCHDOG);
    let img = shadowfs::read_image(&d).expect("read ref image");
    remove_dir(&d);
    img
}

/// Nobody holds the directory. A store is opened here, appends across several chunk rotations,
/// purges everything and flushes; the oldest purged chunk file is removed behind its back just
/// before, so that the worker's own removal fails and the worker thread ends. While that store
/// value is alive every other attempt (same process, other process; store or dump) must be refused.
fn busy_owner(dir: &str, actors: &[Mutex<Actor>], n_threads: usize) -> Result<(), Fail> {
    use std::sync::atomic::AtomicU64;
    use std::sync::atomic::Ordering;
    static NEXT: AtomicU64 = AtomicU64::new(1 << 40);
    let threads0 = crate::trace::nr_threads();
    let mut rl = match std::panic::catch_unwind(|| RaftLog::<VT>::open(lock_config(dir))) {
        Ok(Ok(rl)) => rl,
        Ok(Err(e)) => return Err(Fail::new("open-after-drop-refused", format!("every owner was dropped, yet the next open did not succeed: {e}"))),
        Err(p) => return Err(Fail::new("lock/panic", format!("open panicked: {}", panic_msg(&p)))),
    };
    let mut snapshot = None;
    let work = std::panic::catch_unwind(std::panic::AssertUnwindSafe(|| -> Result<(), std::io::Error> {
        let (t, i0) = match rl.log_state().last() {
            Some((t, i)) => (t + 1, i + 1),
            None => (1, 0),
        };
        let entries: Vec<((u64, u64), String)> = (0..12u64).map(|k| ((t, i0 + k), format!("busy-{k}"))).collect();
        rl.append(entries)?;
        let f1 = NEXT.fetch_add(1, Ordering::Relaxed);
        rl.flush(Some(crate::types::Cb::new(f1)))?;
        rl.wait_worker_idle();
        // a data snapshot taken while the store holds several closed chunks; kept until after
        // the store is dropped (see below)
        snapshot = Some(rl.dump_data());
        let oldest = rl.stat().closed_chunks.first().map(|c| rl.config().chunk_path(c.chunk_id));
        rl.purge((t, i0 + 11))?;
        if let Some(p) = oldest {
            let _ = std::fs::remove_file(p);
        }
        let f2 = NEXT.fetch_add(1, Ordering::Relaxed);
        rl.flush(Some(crate::types::Cb::new(f2)))?;
        // give the worker the time to run into the missing file (bounded; the oracle below does
        // not depend on whether it did)
        let t0 = std::time::Instant::now();
        while crate::trace::nr_threads() > threads0 && t0.elapsed() < std::time::Duration::from_millis(300) {
            std::thread::sleep(std::time::Duration::from_micros(200));
        }
        Ok(())
    }));
    if let Err(p) = work {
        return Err(Fail::new("lock/panic", format!("the owning store panicked while working: {}", panic_msg(&p))));
    }
    let worker_gone = crate::trace::nr_threads() <= threads0;
    let mut granted: Vec<String> = vec![];
    match std::panic::catch_unwind(|| RaftLog::<VT>::open(lock_config(dir))) {
        Ok(Ok(_)) => granted.push("RaftLog::open in the same process".into()),
        Ok(Err(_)) => {}
        Err(p) => return Err(Fail::new("lock/panic", format!("refused open panicked: {}", panic_msg(&p)))),
    }
    match std::panic::catch_unwind(|| Dump::<VT>::new(lock_config(dir))) {
        Ok(Ok(_)) => granted.push("Dump::new in the same process".into()),
        Ok(Err(_)) => {}
        Err(p) => return Err(Fail::new("lock/panic", format!("refused Dump::new panicked: {}", panic_msg(&p)))),
    }
    if let Some(a) = actors.get(n_threads) {
        let mut g = a.lock().unwrap();
        if let Actor::Proc { stdin, stdout, .. } = &mut *g {
            for act in [LockAct::OpenLog, LockAct::OpenDump] {
                match act_proc(stdin, stdout, act) {
                    Reply::Ok => {
                        granted.push(format!("{:?} in another process", act));
                        let _ = act_proc(stdin, stdout, LockAct::Drop);
                    }
                    Reply::Err(_) => {}
                    Reply::Panic(e) => return Err(Fail::new("lock/panic", format!("contender process died: {e}"))),
                }
            }
        }
    }
    // a data snapshot taken from the store is neither a store nor a dump: once the store is
    // dropped the directory must be free even while the snapshot is still around
    drop(rl);
    crate::trace::wait_threads(threads0, crate::driver::WATCHDOG);
    if snapshot.is_some() {
        match std::panic::catch_unwind(|| Dump::<VT>::new(lock_config(dir))) {
            Ok(Ok(d)) => drop(d),
            Ok(Err(e)) => return Err(Fail::new("open-after-drop-refused", format!("the owning store was dropped (a dump_data() snapshot of it is still alive), yet Dump::new is refused: {e}"))),
            Err(p) => return Err(Fail::new("lock/panic", format!("Dump::new panicked: {}", panic_msg(&p)))),
        }
        match std::panic::catch_unwind(|| RaftLog::<VT>::open(lock_config(dir))) {
            Ok(Ok(r2)) => {
                drop(r2);
                crate::trace::wait_threads(threads0, crate::driver::WATCHDOG);
            }
            Ok(Err(e)) => return Err(Fail::new("open-after-drop-refused", format!("the owning store was dropped (a dump_data() snapshot of it is still alive), yet RaftLog::open is refused: {e}"))),
            Err(p) => return Err(Fail::new("lock/panic", format!("open panicked: {}", panic_msg(&p)))),
        }
    }
    drop(snapshot);
    if !granted.is_empty() {
        return Err(Fail::new(
            "open-granted-while-owned",
            format!("a store that had appended, purged and flushed (its flush worker {} after a purged chunk file vanished) was still alive, yet these attempts succeeded: {:?}", if worker_gone { "had stopped" } else { "was still running" }, granted),
        ));
    }
    Ok(())
}

struct Outcome {
    rounds: u64,
    multi_open_rounds: u64,
    cross_process_races: u64,
    refused: u64,
    granted: u64,
    hammer_grants: u64,
}

fn run_prog(dir: &str, prog: &LockProg) -> Result<Outcome, Fail> {
    let n = (prog.threads + prog.procs) as usize;
    let exe = std::env::current_exe().expect("current_exe");
    let mut actors: Vec<Mutex<Actor>> = vec![];
    for i in 0..n {
        if i < prog.threads as usize {
            actors.push(Mutex::new(Actor::Thread(Held::Nothing)));
        } else {
            let mut child = Command::new(&exe).args(["lock-child", dir]).stdin(Stdio::piped()).stdout(Stdio::piped()).stderr(Stdio::null()).spawn().expect("spawn lock-child");
            let stdin = child.stdin.take().unwrap();
            let stdout = BufReader::new(child.stdout.take().unwrap());
            actors.push(Mutex::new(Actor::Proc { child, stdin, stdout }));
        }
    }
    let mut holding: Vec<bool> = vec![false; n];
    let mut out = Outcome { rounds: 0, multi_open_rounds: 0, cross_process_races: 0, refused: 0, granted: 0, hammer_grants: 0 };
    let result = (|| -> Result<(), Fail> {
        for (ri, round) in prog.rounds.iter().enumerate() {
            // normalise: a contender that holds nothing cannot drop; a holder cannot open again
            let acts: Vec<(usize, LockAct)> = round
                .iter()
                .map(|(w, a)| (*w as usize % n, *a))
                .filter(|(w, a)| match a {
                    LockAct::Drop => holding[*w],
                    _ => !holding[*w],
                })
                .collect();
            if acts.is_empty() {
                continue;
            }
            tear(dir);
            let before = shadowfs::read_image(dir).map_err(|e| Fail::new("harness-io", e.to_string()))?;
            let holder_before = holding.iter().filter(|h| **h).count();
            let dropping: Vec<usize> = acts.iter().filter(|(_, a)| *a == LockAct::Drop).map(|x| x.0).collect();
            let openers: Vec<(usize, LockAct)> = acts.iter().filter(|(_, a)| *a != LockAct::Drop).cloned().collect();
            let barrier = Barrier::new(acts.len());
            let mut replies: Vec<(usize, LockAct, Reply)> = vec![];
            std::thread::scope(|s| {
                let mut hs = vec![];
                for (w, a) in &acts {
                    let actor = &actors[*w];
                    let barrier = &barrier;
                    let (w, a) = (*w, *a);
                    hs.push(s.spawn(move || {
                        let mut g = actor.lock().unwrap();
                        barrier.wait();
                        let r = match &mut *g {
                            Actor::Thread(h) => act_thread(h, a, dir),
                            Actor::Proc { stdin, stdout, .. } => act_proc(stdin, stdout, a),
                        };
                        (w, a, r)
                    }));
                }
                for h in hs {
                    replies.push(h.join().expect("actor thread"));
                }
            });
            out.rounds += 1;
            if openers.len() >= 2 {
                out.multi_open_rounds += 1;
                if openers.iter().any(|(w, _)| *w >= prog.threads as usize) {
                    out.cross_process_races += 1;
                }
            }
            let mut granted_log = 0;
            let mut granted = vec![];
            for (w, a, r) in &replies {
                match (a, r) {
                    (_, Reply::Panic(e)) => return Err(Fail::new("lock/panic", format!("round {ri}: contender {w} {:?} panicked / died: {e}", a))),
                    (LockAct::Drop, _) => holding[*w] = false,
                    (_, Reply::Ok) => {
                        holding[*w] = true;
                        granted.push(*w);
                        out.granted += 1;
                        if *a == LockAct::OpenLog {
                            granted_log += 1;
                        }
                    }
                    (_, Reply::Err(_)) => out.refused += 1,
                }
            }
            let holders_now = holding.iter().filter(|h| **h).count();
            let desc = format!("round {ri} {:?} (holders before: {holder_before}, replies {:?})", acts, replies.iter().map(|(w, a, r)| format!("{w}:{:?}={}", a, match r { Reply::Ok => "Ok".to_string(), Reply::Err(_) => "Err".to_string(), Reply::Panic(_) => "panic".into() })).collect::<Vec<_>>());
            if holders_now > 1 {
                return Err(Fail::new("two-owners", format!("{desc}: {holders_now} contenders own the directory at the same time")));
            }
            if holder_before == 1 && dropping.is_empty() && !granted.is_empty() {
                return Err(Fail::new("open-granted-while-owned", format!("{desc}: an open succeeded while another contender owned the directory")));
            }
            if holder_before == 0 && !openers.is_empty() && granted.len() != 1 {
                return Err(Fail::new("free-directory-not-granted-once", format!("{desc}: nobody owned the directory and {} contenders tried to open it, {} succeeded (exactly one must)", openers.len(), granted.len())));
            }
            // files: untouched by refused attempts; one recovery for a granted store
            let after = shadowfs::read_image(dir).map_err(|e| Fail::new("harness-io", e.to_string()))?;
            if granted_log == 0 {
                if after != before {
                    return Err(Fail::new("refused-open-modified-files", format!("{desc}: no store was opened in this round, yet the chunk files changed: before {} / after {}", crate::crash::describe_image(&before), crate::crash::describe_image(&after))));
                }
            } else {
                let want = after_one_recovery(&before);
                if after != want {
                    return Err(Fail::new("files-not-one-recovery", format!("{desc}: chunk files differ from the result of exactly one recovery: got {} / expected {}", crate::crash::describe_image(&after), crate::crash::describe_image(&want))));
                }
            }
        }
        // everybody lets go, then a sequential attempt must succeed
        for w in 0..n {
            if holding[w] {
                let mut g = actors[w].lock().unwrap();
                let _ = match &mut *g {
                    Actor::Thread(h) => act_thread(h, LockAct::Drop, dir),
                    Actor::Proc { stdin, stdout, .. } => act_proc(stdin, stdout, LockAct::Drop),
                };
                holding[w] = false;
            }
        }
        // an owner that has been *working* — and whose flush worker has stopped on an I/O error
        // (a purged chunk file vanished under it) — still owns the directory
        busy_owner(dir, &actors, prog.threads as usize)?;
        // hammer phase: everybody opens / holds / drops in a tight loop at the same time
        {
            let iters = 60u32;
            let barrier = Barrier::new(n);
            let mut res: Vec<(u32, u32)> = vec![];
            std::thread::scope(|s| {
                let mut hs = vec![];
                for w in 0..n {
                    let actor = &actors[w];
                    let barrier = &barrier;
                    hs.push(s.spawn(move || {
                        let mut g = actor.lock().unwrap();
                        barrier.wait();
                        match &mut *g {
                            Actor::Thread(_) => hammer(dir, iters, w as u32),
                            Actor::Proc { stdin, stdout, .. } => {
                                if writeln!(stdin, "hammer {} {}", iters, w).is_err() || stdin.flush().is_err() {
                                    return (0, u32::MAX);
                                }
                                let mut line = String::new();
                                let _ = stdout.read_line(&mut line);
                                let mut it = line.trim().strip_prefix("ok ").unwrap_or("0 4294967295").split_whitespace().map(|x| x.parse::<u32>().unwrap_or(u32::MAX));
                                (it.next().unwrap_or(0), it.next().unwrap_or(u32::MAX))
                            }
                        }
                    }));
                }
                for h in hs {
                    res.push(h.join().expect("hammer thread"));
                }
            });
            let grants: u32 = res.iter().map(|r| r.0).sum();
            out.granted += grants as u64;
            out.hammer_grants += grants as u64;
            if let Some((w, r)) = res.iter().enumerate().find(|(_, r)| r.1 > 0) {
                if r.1 == u32::MAX {
                    return Err(Fail::new("lock/panic", format!("contender {w} died during the hammer phase")));
                }
                return Err(Fail::new("two-owners", format!("hammer phase ({n} contenders x {iters} open/hold/drop iterations): contender {w} found another owner's token in the witness file {} times while it owned the directory", r.1)));
            }
            let _ = std::fs::remove_file(format!("{}/witness", dir));
        }
        for w in [0, n - 1] {
            let mut g = actors[w].lock().unwrap();
            let r = match &mut *g {
                Actor::Thread(h) => act_thread(h, LockAct::OpenLog, dir),
                Actor::Proc { stdin, stdout, .. } => act_proc(stdin, stdout, LockAct::OpenLog),
            };
            if r != Reply::Ok {
                return Err(Fail::new("open-after-drop-refused", format!("every owner was dropped, yet the next open by contender {w} did not succeed: {:?}", r)));
            }
            let _ = match &mut *g {
                Actor::Thread(h) => act_thread(h, LockAct::Drop, dir),
                Actor::Proc { stdin, stdout, .. } => act_proc(stdin, stdout, LockAct::Drop),
            };
        }
        Ok(())
    })();
    for a in actors {
        let mut a = a.into_inner().unwrap();
        match &mut a {
            Actor::Thread(h) => *h = Held::Nothing,
            Actor::Proc { child, stdin, .. } => {
                let _ = writeln!(stdin, "exit");
                let _ = stdin.flush();
                let _ = child.wait();
            }
        }
    }
    result.map(|_| out)
}

impl Prop for C13 {
    fn id(&self) -> &'static str {
        "C13"
    }
    fn level(&self) -> &'static str {
        "exploration"
    }
    fn rule(&self) -> String {
        "proptest generates programs over 2-5 contenders (1-3 threads of the harness process, 1-2 child processes driven over pipes), as rounds; in each round a generated subset acts simultaneously behind a barrier: RaftLog::open, Dump::new or drop. The directory is a real settled image whose newest chunk gets a torn record appended before every round, so that any open that gets past the lock visibly repairs files. \
         Oracle (holds in every interleaving): at most one owner at any time; while somebody owns the directory and does not drop in that round, every attempt fails with an error; when nobody owns it and k>=1 contenders try, exactly one succeeds; after the rounds every contender runs 60 open/hold/drop iterations at the same time (mostly Dump, every 16th a full store), writing its own token into a witness file while it owns the directory and reading it back — a foreign token means two owners; after everybody dropped, sequential opens by a thread and by a process succeed; \
         the chunk files after a round are byte-identical to before if no store was opened in it, and identical to the result of exactly one recovery (computed on a copy) otherwise; nothing panics. Non-trivial iff >=1 round has >=2 simultaneous openers with >=1 of them in another process; distinct = case hash."
            .to_string()
    }
    fn assumptions(&self) -> Vec<String> {
        vec!["the harness owns the order of attempts, not the kernel's interleaving inside flock: racing attempts are stressed (barrier + many programs), not enumerated".into()]
    }
    fn cases(&self, tier: Tier) -> u32 {
        match tier {
            Tier::Quick => 100,
            Tier::Thorough => 1500,
        }
    }
    fn strategy(&self, tier: Tier) -> BoxedStrategy<Case> {
        lock_case_strategy(if tier == Tier::Quick { 6 } else { 12 })
    }
    fn fixed_cases(&self) -> Vec<Case> {
        use LockAct::*;
        vec![Case {
            prog: Some(LockProg { threads: 2, procs: 1, rounds: vec![vec![(0, OpenLog), (1, OpenLog), (2, OpenLog)], vec![(0, OpenDump), (1, OpenDump), (2, OpenDump)], vec![(0, Drop), (1, Drop), (2, Drop)], vec![(0, OpenDump), (2, OpenLog)], vec![(1, OpenLog)]] }),
            ..crate::ops::sample_case()
        }]
    }
    fn run_case(&self, case: &Case, _ctx: &Ctx) -> Result<CaseInfo, Fail> {
        let mut info = CaseInfo::default();
        let Some(prog) = &case.prog else { return Ok(info) };
        let st = settled_image(case)?;
        let dir = fresh_dir("lock");
        shadowfs::write_image(&dir, &st.img).map_err(|e| Fail::new("harness-io", e.to_string()))?;
        let r = run_prog(&dir, prog);
        remove_dir(&dir);
        let out = r?;
        info.evals = out.rounds.max(1);
        info.label_n("rounds", out.rounds);
        info.label_n("rounds_with_2plus_openers", out.multi_open_rounds);
        info.label_n("rounds_racing_across_processes", out.cross_process_races);
        info.label_n("attempts_refused", out.refused);
        info.label_n("attempts_granted", out.granted);
        info.label_n("hammer_phase_grants", out.hammer_grants);
        info.nontrivial = out.cross_process_races > 0;
        if info.nontrivial {
            info.sample = Some(json!({"prog": prog}));
        }
        Ok(info)
    }
}
