//! C10 — torn or zero-filled tail: exactly the longest complete prefix is recovered.

use std::collections::BTreeMap;

use proptest::strategy::BoxedStrategy;
use serde_json::json;

use crate::driver::Fail;
use crate::images::settled_image;
use crate::images::Trial;
use crate::images::TrialDir;
use crate::model::Snapshot;
use crate::ops::case_strategy;
use crate::ops::mix;
use crate::ops::Case;
use crate::ops::CfgSpec;
use crate::ops::Profile;
use crate::props::c05::suffix_check;
use crate::props::c08::replay_files;
use crate::refcodec;
use crate::runner::CaseInfo;
use crate::runner::Ctx;
use crate::runner::Prop;
use crate::runner::Tier;
use crate::shadowfs;
use crate::shadowfs::Image;

pub struct C10;

pub fn profile(tier: Tier) -> Profile {
    let mut p = crate::props::c09::profile(tier);
    p.max_ops = if tier == Tier::Quick { 16 } else { 34 };
    p
}

const ZERO_LENS: [usize; 13] = [1, 2, 7, 8, 19, 20, 27, 28, 64, 1024, 33 * 1024, 64 * 1024 + 1, 300_000];

/// Reference expectation: older files complete + the complete records of the cut newest file.
fn expected(base: &Image, newest: &str, tail: &[u8]) -> Result<Snapshot, String> {
    let mut img = base.clone();
    let p = refcodec::parse_chunk(tail);
    if p.recs.is_empty() {
        img.remove(newest);
    } else {
        img.insert(newest.to_string(), tail[..p.valid_len()].to_vec());
    }
    replay_files(&img)
}

impl Prop for C10 {
    fn id(&self) -> &'static str {
        "C10"
    }
    fn level(&self) -> &'static str {
        "fault_enumeration"
    }
    fn rule(&self) -> String {
        "proptest generates (config, short history with every record kind, clean restarts); after flush + acknowledgement + worker idle the chunk files are copied. Enumerated inside each image, for truncate_incomplete_record = true and = false: every cut position 0..len of the newest chunk file, \
         and every zero tail that starts at a record boundary (incl. 0 and len) with length 1,2,7,8,19,20,27,28,64,1024,33KiB,64KiB+1,300000 (a stride sub-sample when an image exceeds the tier's budget; the full count is reported). Oracle with truncation on: open is Ok and (state, entries) equal the reference replay of the older files plus exactly the complete records of the cut file \
         (reference decoder), and for a sample of trials the recovered store follows the model through further writes, a restart and an acknowledged flush. With truncation off: an image whose newest file ends exactly on a record boundary opens Ok with the same expectation, every other image makes open fail and leaves every file byte-identical. \
         A trial is non-trivial iff the file differs from the original; distinct = (image, trial)."
            .to_string()
    }
    fn assumptions(&self) -> Vec<String> {
        vec!["images are those the store itself produced after flush + idle".into(), "record boundaries from the reference decoder".into()]
    }
    fn cases(&self, tier: Tier) -> u32 {
        match tier {
            Tier::Quick => 8,
            Tier::Thorough => 60,
        }
    }
    fn strategy(&self, tier: Tier) -> BoxedStrategy<Case> {
        case_strategy(&profile(tier))
    }
    fn run_case(&self, case: &Case, ctx: &Ctx) -> Result<CaseInfo, Fail> {
        let mut info = CaseInfo::default();
        let st = settled_image(case)?;
        let files: Vec<(u64, String, Vec<u8>)> = shadowfs::ordered(&st.img).into_iter().map(|(o, n, d)| (o, n.clone(), d.clone())).collect();
        let (_, newest, data) = files.last().unwrap().clone();
        let img_hash = crate::crash::image_hash(&st.img);
        let bounds = refcodec::parse_chunk(&data).boundaries();
        let td = TrialDir::new(&st.img);
        // trial list: (tail bytes description, content)
        let mut trials: Vec<(String, Vec<u8>, bool)> = vec![];
        for c in 0..=data.len() {
            trials.push((format!("newest chunk {newest} ({} bytes) cut to {c} bytes", data.len()), data[..c].to_vec(), bounds.contains(&c)));
        }
        for b in &bounds {
            let mut ls: Vec<usize> = ZERO_LENS.to_vec();
            if data.len() > *b {
                ls.push(data.len() - b);
            }
            for l in ls {
                let mut t = data[..*b].to_vec();
                t.resize(b + l, 0);
                trials.push((format!("newest chunk {newest}: bytes from record boundary {b} on replaced by {l} zero bytes"), t, false));
            }
        }
        let budget = if ctx.tier == Tier::Quick { 1500 } else { 20_000 };
        let stride = (trials.len() * 2 / budget).max(1);
        let phase = (case.sel as usize) % stride;
        info.label_n("trial_space", trials.len() as u64 * 2);
        let mut evals = 0u64;
        let mut nt = vec![];
        let mut labels: BTreeMap<String, u64> = BTreeMap::new();
        let mut suffix_left = if ctx.tier == Tier::Quick { 4 } else { 16 };
        let mut sample = None;
        for (ti, (desc, tail, on_boundary)) in trials.iter().enumerate() {
            if ti % stride != phase && !*on_boundary {
                continue;
            }
            let want = expected(&st.img, &newest, tail).map_err(|e| Fail::new("harness-reference-replay", e))?;
            for trunc in [true, false] {
                let mut cfg: CfgSpec = case.alt.clone().unwrap_or_else(|| case.cfg.clone());
                cfg.cache_items = None;
                cfg.cache_cap = None;
                cfg.trunc = if trunc { if ti % 2 == 0 { None } else { Some(true) } } else { Some(false) };
                td.set_file(&newest, Some(tail));
                let before = td.current();
                evals += 1;
                if *tail != data {
                    nt.push(mix(mix(img_hash, ti as u64), trunc as u64));
                }
                let out = td.open(&cfg);
                let after = td.current();
                let must_open = trunc || *on_boundary;
                let label = format!("{}_{}", if trunc { "truncate_on" } else { "truncate_off" }, if *on_boundary { "boundary" } else if desc.contains("zero") { "zero_tail" } else { "torn" });
                *labels.entry(label).or_insert(0) += 1;
                match (&out, must_open) {
                    (Trial::Ok(s), true) => {
                        if *s != want {
                            return Err(Fail::new(
                                if trunc { "recovered-not-longest-complete-prefix" } else { "boundary-image-differs" },
                                format!("{desc}, truncate_incomplete_record={:?}: open shows state {:?} with {} entries {:?}; the complete records present give state {:?} with {} entries", cfg.trunc, s.st, s.log.len(), crate::driver::brief(&s.entries()), want.st, want.log.len()),
                            ));
                        }
                        if suffix_left > 0 && (ti * 7 + trunc as usize) % 11 == (case.sel % 11) as usize {
                            suffix_left -= 1;
                            *labels.entry("suffix_checked".into()).or_insert(0) += 1;
                            td.restore();
                            let mut img = st.img.clone();
                            img.insert(newest.clone(), tail.clone());
                            suffix_check(&img, &cfg, want.clone(), mix(case.sel, ti as u64), crate::props::c05::max_id_of(&st.model), true).map_err(|mut f| {
                                f.msg = format!("{desc}: after recovery: {}", f.msg);
                                f
                            })?;
                        }
                    }
                    (Trial::Ok(s), false) => {
                        return Err(Fail::new("truncation-although-disabled", format!("{desc}, truncate_incomplete_record=false: open succeeded (state {:?}, {} entries) although the newest chunk holds an incomplete or zero tail", s.st, s.log.len())));
                    }
                    (Trial::Err(e), true) => {
                        return Err(Fail::new("open-refused-torn-tail", format!("{desc}, truncate_incomplete_record={:?}: open returned Err: {e}", cfg.trunc)));
                    }
                    (Trial::Err(_), false) => {
                        if after != before {
                            let changed: Vec<&String> = before.keys().filter(|k| after.get(*k) != before.get(*k)).collect();
                            return Err(Fail::new("refused-open-modified-files", format!("{desc}, truncate_incomplete_record=false: open refused but changed files {:?} / created {:?}", changed, after.keys().filter(|k| !before.contains_key(*k)).collect::<Vec<_>>())));
                        }
                    }
                    (Trial::ReadErr(e), _) => return Err(Fail::new("read-error-after-recovery", format!("{desc}: open succeeded, reading failed: {e}"))),
                    (Trial::Panic(e), _) => return Err(Fail::new("panic-on-torn-tail", format!("{desc}, truncate_incomplete_record={:?}: panic: {e}", cfg.trunc))),
                }
                td.restore();
            }
            if sample.is_none() && !*on_boundary {
                sample = Some(json!({"case": case, "files": crate::crash::describe_image(&st.img), "trial": desc}));
            }
        }
        info.evals = evals;
        for (k, v) in labels {
            info.label_n(k, v);
        }
        info.label_n("chunk_files", files.len() as u64);
        info.nontrivial = !nt.is_empty();
        info.nontrivial_hashes = nt;
        info.sample = sample;
        Ok(info)
    }
}
