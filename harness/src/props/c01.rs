//! C01 — sequential log semantics against the reference model, for every chunk setting.

use proptest::strategy::BoxedStrategy;

use crate::driver::Done;
use crate::driver::Fail;
use crate::driver::Run;
use crate::ops::case_strategy;
use crate::ops::Case;
use crate::ops::CfgSpec;
use crate::ops::OpSpec;
use crate::ops::Profile;
use crate::props::with_run;
use crate::runner::CaseInfo;
use crate::runner::Ctx;
use crate::runner::Prop;
use crate::runner::Tier;

pub struct C01;

pub fn profile(tier: Tier) -> Profile {
    let mut p = Profile::base(if tier == Tier::Quick { 40 } else { 120 });
    p.with_alt = true;
    p.w_update_state = 1;
    // `purge_inside_newer_term` stays off: see DESIGN.md §9 (seeded C01-r5m2 is not caught)
    p.purge_inside_newer_term = false;
    p.big_batches = true;
    p.huge_payload = tier == Tier::Thorough;
    p.big_read_buf = tier == Tier::Thorough;
    p
}

/// `stat()` must describe a suffix of the expected journal layout.
pub fn check_stat_layout(run: &Run) -> Result<(), Fail> {
    let Some(layout) = &run.layout else { return Ok(()) };
    if std::env::var_os("RLV_NO_STAT").is_some() {
        return Ok(());
    }
    let st = run.rl().stat();
    let mut got: Vec<(u64, u64, u64, u64)> = st.closed_chunks.iter().map(|c| (c.chunk_id.0, c.records_count, c.global_start, c.global_end)).collect();
    got.push((st.open_chunk.chunk_id.0, st.open_chunk.records_count, st.open_chunk.global_start, st.open_chunk.global_end));
    let all: Vec<(u64, u64, u64, u64)> = layout.chunks.iter().map(|c| (c.start, c.recs.len() as u64, c.start, c.end())).collect();
    if got.len() > all.len() || all[all.len() - got.len()..] != got[..] {
        return Err(Fail::new(
            "stat-layout",
            format!("stat() chunks (id,records,start,end) = {:?} are not a suffix of the expected journal layout {:?} (cfg {:?})", got, all, run.cfg),
        ));
    }
    Ok(())
}

fn one_pass(case: &Case, cfg: &CfgSpec, info: &mut CaseInfo, first: bool) -> Result<(), Fail> {
    let (classes, _ctl) = with_run(cfg, false, &[], |run| {
        let mut nonempty_read = false;
        for op in &case.ops {
            if matches!(op, OpSpec::Reopen { .. } | OpSpec::Reject { .. } | OpSpec::Probe(_) | OpSpec::Steps(_)) {
                continue;
            }
            // update_state only as an equivalent of the listed writes (vote / committed / user
            // data changed); overriding `last` is not a write the property quantifies over
            if matches!(op, OpSpec::UpdateState { what, .. } if what % 5 >= 3) {
                continue;
            }
            let d = run.exec(op)?;
            if let Done::Skipped = d {
                continue;
            }
            run.check_state()?;
            run.check_full_read()?;
            check_stat_layout(run)?;
            if !run.model.cur.log.is_empty() {
                nonempty_read = true;
            }
            // A purge id with a newer term at a live index below the last one (a snapshot that
            // covers only a prefix of a conflicting log) leaves `last` below live entries: the
            // entries above the purge point must still be there, but what further writes do on
            // such a log (its terms now decrease along the index) is the caller's business, so
            // the history is only read from here on and ends.
            if matches!(op, OpSpec::Purge { beyond: 5, .. }) && run.classes.has("purge_inside_newer_term") {
                break;
            }
        }
        if nonempty_read {
            run.classes.hit("nonempty_read");
        }
        Ok(run.classes.clone())
    })?;
    if first {
        info.evals += case.ops.len() as u64;
        for (k, v) in &classes.m {
            if !k.starts_with("__") {
                info.label_n(*k, *v);
            }
        }
        info.nontrivial = classes.has("rotation") && (classes.has("truncate_removes") || classes.has("purge")) && classes.has("nonempty_read");
    } else {
        info.evals += case.ops.len() as u64;
        if classes.has("rotation") {
            info.label("alt_cfg_rotation");
        }
    }
    Ok(())
}

impl Prop for C01 {
    fn id(&self) -> &'static str {
        "C01"
    }
    fn level(&self) -> &'static str {
        "exploration"
    }
    fn rule(&self) -> String {
        "model-based stateful PBT: proptest generates (config, history of vote/append/truncate/purge/commit/user-data/flush/read ops, second config); every op is resolved against the reference model, \
         executed on the real store, and after every op log_state(), read(0,MAX), the generated read range and stat()'s chunk list are compared with the model and the expected journal layout; \
         the same history is then re-run under the second chunk configuration with the same oracle (chunking is invisible). A case is non-trivial iff it has >=1 chunk rotation, >=1 truncate that removes entries or >=1 purge, \
         and >=1 read over a non-empty log; distinct = distinct case hash."
            .to_string()
    }
    fn assumptions(&self) -> Vec<String> {
        vec![
            "reference model (harness/src/model.rs) states the sequential specification correctly".into(),
            "cache limits unlimited (C07 owns cache pressure); worker free-running".into(),
            "histories are Raft-legal: terms never decrease along the log, purge ids name existing entries or lie beyond last".into(),
        ]
    }
    fn cases(&self, tier: Tier) -> u32 {
        match tier {
            Tier::Quick => 700,
            Tier::Thorough => 8_000,
        }
    }
    fn strategy(&self, tier: Tier) -> BoxedStrategy<Case> {
        case_strategy(&profile(tier))
    }
    fn extra(&self, ctx: &Ctx, shard: usize, rep: &mut crate::runner::ShardReport) {
        // thorough tier: coverage-guided stateful campaign (cargo-fuzz target hist_model: bytes ->
        // configuration + history incl. clean restarts, same model oracle in-target)
        if shard != 0 || ctx.tier != Tier::Thorough {
            return;
        }
        let runs = std::env::var("RLV_FUZZ_HIST_RUNS").ok().and_then(|s| s.parse::<u64>().ok()).unwrap_or(150_000);
        let seeds: Vec<std::path::PathBuf> = std::fs::read_dir(format!("{}/fuzz/corpus/hist_model", crate::runner::verif_home())).map(|rd| rd.flatten().map(|e| e.path()).collect()).unwrap_or_default();
        crate::fuzzrun::campaign("hist_model", ctx.seed, runs, 300, &seeds, rep, &|d: &[u8]| {
            Fail::new("fuzz-hist-model", format!("the cargo-fuzz target hist_model (store vs reference model in lock-step) failed on a {}-byte input", d.len()))
        });
    }
    fn run_case(&self, case: &Case, _ctx: &Ctx) -> Result<CaseInfo, Fail> {
        let mut info = CaseInfo::default();
        one_pass(case, &case.cfg, &mut info, true)?;
        if let Some(alt) = &case.alt {
            one_pass(case, alt, &mut info, false).map_err(|mut f| {
                f.msg = format!("[under the second configuration {:?}] {}", alt, f.msg);
                f
            })?;
        }
        Ok(info)
    }
}
