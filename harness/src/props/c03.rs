//! C03 — crash safety: whatever can be opened after a crash is a prefix of the issued
//! writes that contains everything acknowledged.

use std::collections::BTreeMap;

use proptest::strategy::BoxedStrategy;
use serde_json::json;

use crate::crash;
use crate::crash::Outcome;
use crate::driver::Fail;
use crate::ops::case_strategy;
use crate::ops::Case;
use crate::ops::CfgSpec;
use crate::ops::Profile;
use crate::runner::CaseInfo;
use crate::runner::Ctx;
use crate::runner::Prop;
use crate::runner::Tier;
use crate::shadowfs::Shadow;

pub struct C03;

pub fn profile(tier: Tier) -> Profile {
    let mut p = Profile::base(if tier == Tier::Quick { 25 } else { 60 });
    p.w_steps = 8;
    p.w_flush = 4;
    p.w_reopen = 1;
    p.w_read = 0;
    p.with_alt = true;
    // I/O faults of the worker (failed / short / torn writes, failed syncs): an acknowledgement
    // that is Ok must still be backed by what a crash leaves behind
    p.faults = crate::ops::FaultGen::Io;
    p
}

pub fn image_cfg(case: &Case) -> CfgSpec {
    let mut c = case.alt.clone().unwrap_or_else(|| case.cfg.clone());
    c.trunc = None;
    c.cache_items = None;
    c.cache_cap = None;
    c
}

impl Prop for C03 {
    fn id(&self) -> &'static str {
        "C03"
    }
    fn level(&self) -> &'static str {
        "fault_enumeration"
    }
    fn rule(&self) -> String {
        "proptest generates (config, legal history with flushes at arbitrary positions, clean restarts, worker schedule as Steps ops, second config for recovery). The history runs with the flush worker gated at every write/fdatasync/unlink/callback; all file-system calls of both threads and every acknowledgement are recorded in one totally ordered trace. \
         Enumerated inside each case: every trace position as crash point x {process crash: all completed calls kept; crash inside a write: prefixes of its bytes at record boundaries +-1 and more; power loss: per file the bytes of the last successful sync plus any of a set of prefixes of the unsynced bytes or a zero tail (lengths 1,2,7,8,19,20,27,28,64,1024,rest,33KiB) from a record boundary; \
         combinations across files sampled from the case's selector when above the per-point budget}. Each distinct image is opened with the real RaftLog::open. Oracle: if open returns Ok, (log_state, read(0,MAX)) must equal the reference model after i accepted records with acked(q) <= i <= issued(q), \
         where acked = records journalled before the newest flush whose Ok callback precedes the crash point and issued = records journalled by operations begun before it. Err / panic are C05's business. An image is non-trivial iff acked < issued at its crash point (some write is journalled but not acknowledged) and the history has >=1 rotation; distinct = distinct (case, image) hash."
            .to_string()
    }
    fn assumptions(&self) -> Vec<String> {
        vec![
            "crash model of the property: no lost directory entries, no reordering inside synced data, tmpfs content stands for the page cache".into(),
            "caller-side file-system calls need no gating (DESIGN.md §2.3); worker gated at call granularity".into(),
            "power-loss combinations across files are sampled, single-file variants are enumerated from a fixed list".into(),
        ]
    }
    fn cases(&self, tier: Tier) -> u32 {
        match tier {
            Tier::Quick => 40,
            Tier::Thorough => 800,
        }
    }
    fn strategy(&self, tier: Tier) -> BoxedStrategy<Case> {
        case_strategy(&profile(tier))
    }
    fn run_case(&self, case: &Case, ctx: &Ctx) -> Result<CaseInfo, Fail> {
        let mut info = CaseInfo::default();
        // half of the cases run without injected faults (those keep their clean restarts)
        let mut eff = case.clone();
        if case.sel & 1 == 0 {
            eff.faults.clear();
        } else if case.sel & 2 == 0 {
            // with tiny chunks nearly every worker write is the tail of a rotation, and a lost
            // tail ends in the known rotation-gap class; half of the fault cases get roomy chunks
            // so that the failed write is one that carries flushed records
            eff.cfg.max_records = if case.sel & 4 == 0 { Some(20) } else { None };
            eff.cfg.max_size = if case.sel & 8 == 0 { None } else { Some(5000) };
        }
        let case = &eff;
        let rec = crash::record(case, false, false)?;
        let icfg = image_cfg(case);
        let per_point = if ctx.tier == Tier::Quick { 6 } else { 40 };
        let mut double_budget = if ctx.tier == Tier::Quick { 5 } else { 30 };
        let case_hash = case.hash64();
        let rotation = rec.classes.has("rotation");
        let mut bounds_cache: BTreeMap<usize, crash::Bounds> = BTreeMap::new();
        let mut labels: BTreeMap<String, u64> = BTreeMap::new();
        let mut evals = 0u64;
        let mut nt = vec![];
        let mut sample = None;
        crash::enumerate_images(&rec, Shadow::default(), case.sel, per_point, ctx.tier == Tier::Thorough, |ci| {
            let b = *bounds_cache.entry(ci.q).or_insert_with(|| crash::bounds_at(&rec, ci.q));
            evals += 1;
            *labels.entry(format!("image_{}", ci.kind)).or_insert(0) += 1;
            let out = crash::open_image(&ci.img, &icfg, &rec.model, b.issued);
            let lag = b.acked < b.issued;
            match &out {
                Outcome::Prefix(i) => {
                    *labels.entry("open_ok".into()).or_insert(0) += 1;
                    if *i < b.acked {
                        return Err(Fail::new(
                            "acknowledged-write-lost",
                            format!(
                                "crash after {} trace events ({}: {}): recovery shows the state after {} accepted records but {} were acknowledged by a successful flush (issued {}); record lost: {:?}; image: {}",
                                ci.q, ci.kind, ci.desc, i, b.acked, b.issued, rec.model.records.get(*i), crash::describe_image(&ci.img)
                            ),
                        ));
                    }
                    if *i > b.issued {
                        return Err(Fail::new("recovered-more-than-issued", format!("crash after {} events: recovery shows {} records, only {} were issued", ci.q, i, b.issued)));
                    }
                    if lag && rotation {
                        nt.push(crate::ops::mix(case_hash, crash::image_hash(&ci.img)));
                        if sample.is_none() && *i > b.acked && *i < b.issued {
                            sample = Some(json!({"case": case, "crash_after_events": ci.q, "kind": ci.kind, "image": ci.desc, "files": crash::describe_image(&ci.img), "acked": b.acked, "issued": b.issued, "recovered_prefix": i}));
                        }
                    }
                }
                Outcome::NoPrefix(snap) => {
                    return Err(Fail::new(
                        "recovered-state-is-no-prefix",
                        format!(
                            "crash after {} trace events ({}: {}): open succeeded but state {:?} with {} entries {:?} is not the state after any prefix of the issued writes (acked {}, issued {}); image: {}",
                            ci.q, ci.kind, ci.desc, snap.st, snap.log.len(), crate::driver::brief(&snap.entries()), b.acked, b.issued, crash::describe_image(&ci.img)
                        ),
                    ));
                }
                Outcome::ReadErr(e) => {
                    return Err(Fail::new("read-error-after-recovery", format!("crash after {} events ({}): open succeeded but read(0,MAX) failed: {e}; image: {}", ci.q, ci.kind, crash::describe_image(&ci.img))));
                }
                Outcome::Err(_) => *labels.entry("open_err_left_to_C05".into()).or_insert(0) += 1,
                Outcome::Panic(_) => *labels.entry("open_panic_left_to_C05".into()).or_insert(0) += 1,
            }
            // Double crash: the process dies here (unsynced bytes stay in the page cache), the
            // store is restarted (recovery may truncate, create, unlink — all traced), and then
            // the machine loses power: whatever recovery did must not depend on bytes that were
            // never synced. The recovery issues no writes of its own, so the bounds are those of q.
            if ci.kind == "process" && ci.durable.is_some() && double_budget > 0 && crate::ops::mix(case.sel, ci.q as u64) % 3 == 0 && matches!(out, Outcome::Prefix(_)) {
                double_budget -= 1;
                if let Some((rec2, init)) = crash::record_recovery(&ci.img, ci.durable.as_ref(), &icfg, &rec) {
                    crash::enumerate_images(&rec2, init, crate::ops::mix(case.sel, 78), 4, false, |c2| {
                        if c2.kind != "power" {
                            return Ok(());
                        }
                        evals += 1;
                        *labels.entry("image_double_crash".into()).or_insert(0) += 1;
                        let what = format!("process crash after {} trace events, restart, then power loss after {} events of the recovery ({})", ci.q, c2.q, c2.desc);
                        match crash::open_image(&c2.img, &icfg, &rec.model, b.issued) {
                            Outcome::Prefix(i) if i < b.acked => Err(Fail::new(
                                "double-crash/acknowledged-write-lost",
                                format!("{what}: recovery shows the state after {i} accepted records but {} were acknowledged (issued {}); image: {}", b.acked, b.issued, crash::describe_image(&c2.img)),
                            )),
                            Outcome::Prefix(i) if i > b.issued => Err(Fail::new("double-crash/recovered-more-than-issued", format!("{what}: recovery shows {i} records, only {} were issued", b.issued))),
                            Outcome::Prefix(_) => {
                                nt.push(crate::ops::mix(case_hash, crash::image_hash(&c2.img)));
                                Ok(())
                            }
                            Outcome::NoPrefix(snap) => Err(Fail::new(
                                "double-crash/recovered-state-is-no-prefix",
                                format!(
                                    "{what}: open succeeded but state {:?} with {} entries {:?} is not the state after any prefix of the issued writes (acked {}, issued {}); image: {}",
                                    snap.st, snap.log.len(), crate::driver::brief(&snap.entries()), b.acked, b.issued, crash::describe_image(&c2.img)
                                ),
                            )),
                            Outcome::ReadErr(e) => Err(Fail::new("double-crash/read-error-after-recovery", format!("{what}: open succeeded but read(0,MAX) failed: {e}; image: {}", crash::describe_image(&c2.img)))),
                            Outcome::Err(_) | Outcome::Panic(_) => {
                                *labels.entry("open_err_left_to_C05".into()).or_insert(0) += 1;
                                Ok(())
                            }
                        }
                    })?;
                }
            }
            Ok(())
        })?;
        info.evals = evals;
        info.labels = labels;
        for (k, v) in &rec.classes.m {
            if !k.starts_with("__") {
                info.label_n(format!("hist_{k}"), *v);
            }
        }
        info.label_n("hist_faults_hit", rec.faults_hit as u64);
        info.label_n("hist_hard_faults_hit", rec.hard_faults_hit as u64);
        info.nontrivial = !nt.is_empty();
        info.nontrivial_hashes = nt;
        info.sample = sample;
        info.excluded = rec.excluded;
        Ok(info)
    }
}
