//! C16 — no argument makes a public operation panic (overflow checks and debug
//! assertions are on in the harness profile).

use std::panic::catch_unwind;
use std::panic::AssertUnwindSafe;

use proptest::strategy::BoxedStrategy;
use raft_log::DumpApi;

use crate::driver::panic_msg;
use crate::driver::Done;
use crate::driver::Fail;
use crate::driver::Run;
use crate::ops::case_strategy;
use crate::ops::ArgSel;
use crate::ops::Case;
use crate::ops::OpSpec;
use crate::ops::ProbeSpec;
use crate::ops::Profile;
use crate::props::last_panic_location;
use crate::props::with_run;
use crate::runner::CaseInfo;
use crate::runner::Ctx;
use crate::runner::Prop;
use crate::runner::Tier;

pub struct C16;

pub fn profile(tier: Tier) -> Profile {
    let mut p = Profile::base(if tier == Tier::Quick { 30 } else { 80 });
    p.w_probe = 8;
    p.big_batches = true;
    p.w_reopen = 1;
    p.w_read = 1;
    p.small_cache = true;
    p
}

fn edgy(a: &ArgSel) -> bool {
    matches!(a, ArgSel::Zero | ArgSel::Max | ArgSel::MaxM1 | ArgSel::PurgedM1 | ArgSel::Purged | ArgSel::LastP1 | ArgSel::LastP2)
}

fn probe_edgy(p: &ProbeSpec) -> bool {
    match p {
        ProbeSpec::Truncate(a) => edgy(a),
        ProbeSpec::Read(a, b) | ProbeSpec::Purge(a, b) | ProbeSpec::Commit(a, b) | ProbeSpec::Vote(a, b) => edgy(a) || edgy(b),
        ProbeSpec::Append(v) => v.iter().any(|(a, b)| edgy(a) || edgy(b)),
        ProbeSpec::UserData(_) => false,
        ProbeSpec::UpdateState { vote, last, committed, purged, .. } => [vote, last, committed, purged].iter().any(|o| o.map(|(a, b)| edgy(&a) || edgy(&b)).unwrap_or(false)),
    }
}

/// Known class: an index within 64 of u64::MAX reaches the store (`index + 1` overflows
/// there or a few legal operations later).
fn near_max(i: u64) -> bool {
    i >= u64::MAX - 64
}

/// Input class of a probe (computed before it runs, from the arguments and the model).
fn classify(run: &Run, p: &ProbeSpec) -> (String, bool) {
    let st = run.model.st();
    let mut index_max = false;
    let key = match p {
        ProbeSpec::Truncate(a) => {
            let i = run.arg(*a);
            if i == 0 && st.purged.is_some() {
                "truncate-index0-with-purged".to_string()
            } else {
                "panic/truncate".to_string()
            }
        }
        ProbeSpec::Read(a, b) => {
            if run.arg(*a) > run.arg(*b) {
                "read-from-gt-to".to_string()
            } else {
                "panic/read".to_string()
            }
        }
        ProbeSpec::Purge(_, i) => {
            index_max = near_max(run.arg(*i));
            "panic/purge".to_string()
        }
        ProbeSpec::Commit(..) => "panic/commit".to_string(),
        ProbeSpec::Append(v) => {
            index_max = v.iter().any(|(_, i)| near_max(run.arg(*i)));
            "panic/append".to_string()
        }
        ProbeSpec::Vote(..) => "panic/save_vote".to_string(),
        ProbeSpec::UserData(_) => "panic/save_user_data".to_string(),
        ProbeSpec::UpdateState { last, purged, .. } => {
            index_max = [last, purged].iter().any(|o| o.map(|(_, i)| near_max(run.arg(i))).unwrap_or(false));
            "panic/update_state".to_string()
        }
    };
    (key, index_max)
}

fn observers(run: &Run) -> Result<(), String> {
    let r = catch_unwind(AssertUnwindSafe(|| {
        let rl = run.rl();
        let _ = rl.log_state().clone();
        let _ = rl.stat();
        let _ = format!("{}", rl.stat());
        let _ = rl.on_disk_size();
        let mut n = 0;
        for it in rl.read(0, u64::MAX) {
            let _ = it;
            n += 1;
            if n > 100_000 {
                break;
            }
        }
        let _ = rl.dump().write_to_string();
        let mut d = rl.dump_data();
        for it in d.iter() {
            let _ = it;
        }
        let _ = rl.access_stat().to_string();
        let _ = rl.config().chunk_max_records();
    }));
    r.map_err(|p| panic_msg(&p))
}

impl Prop for C16 {
    fn id(&self) -> &'static str {
        "C16"
    }
    fn level(&self) -> &'static str {
        "exploration"
    }
    fn rule(&self) -> String {
        "proptest generates a legal history (incl. purged / truncated / empty / reopened states, small caches) interleaved with argument probes: truncate(i), read(a,b), purge(id), commit(id), append([ids]), save_vote(v), save_user_data, update_state(s) \
         with every numeric field drawn from {0,1,u64::MAX,u64::MAX-1, purged.index-1/+0/+1, last.index-2..+2, random}. Every call runs under catch_unwind in a build with overflow-checks and debug-assertions on; after each probe log_state/stat/on_disk_size/read(0,MAX)/dump/dump_data are exercised, \
         the model is re-synchronised from what the store reports and the history continues. Oracle: no call panics (Err is fine). Non-trivial iff >=1 probe argument is at an integer limit or on the wrong side of purged/last and the store holds >=1 accepted write; distinct = case hash."
            .to_string()
    }
    fn assumptions(&self) -> Vec<String> {
        vec![
            "harness profile: opt-level 2, overflow-checks = true, debug-assertions = true, panic = unwind".into(),
            "after an unmodelled probe only panics are judged, not results".into(),
        ]
    }
    fn cases(&self, tier: Tier) -> u32 {
        match tier {
            Tier::Quick => 800,
            Tier::Thorough => 12_000,
        }
    }
    fn strategy(&self, tier: Tier) -> BoxedStrategy<Case> {
        case_strategy(&profile(tier))
    }
    fn run_case(&self, case: &Case, ctx: &Ctx) -> Result<CaseInfo, Fail> {
        let mut info = CaseInfo::default();
        let res = with_run(&case.cfg, false, &[], |run| {
            run.avoid_low_reappend = true;
            let mut nt = false;
            let mut nprobe = 0u64;
            let mut excluded_after_max = 0u64;
            let mut known: Vec<(String, String)> = vec![];
            for op in &case.ops {
                if matches!(op, OpSpec::Reject { .. } | OpSpec::Steps(_)) {
                    continue;
                }
                if let OpSpec::Probe(p) = op {
                    let (mut key, imax) = classify(run, p);
                    if imax {
                        run.saw_index_max = true;
                    }
                    if run.saw_index_max {
                        key = "index-near-u64max".to_string();
                    }
                    if probe_edgy(p) && !run.model.records.is_empty() {
                        nt = true;
                    }
                    nprobe += 1;
                    let d = run.exec(op)?;
                    if let Done::Probe { panicked: Some(msg), desc, .. } = &d {
                        let f = Fail::new(key.clone(), format!("{desc} panicked: {msg} ({}); state {:?}", last_panic_location(), run.model.st()));
                        if ctx.known.is_known(&key) {
                            known.push((f.key, f.msg));
                            break;
                        }
                        return Err(f);
                    }
                    if let Err(msg) = observers(run) {
                        let k = if run.saw_index_max { key.clone() } else { format!("observer-panic-after/{}", key) };
                        let f = Fail::new(k.clone(), format!("an observer panicked after {:?}: {msg} ({})", d, last_panic_location()));
                        if ctx.known.is_known(&k) {
                            known.push((f.key, f.msg));
                            break;
                        }
                        return Err(f);
                    }
                    if run.saw_index_max {
                        // known class: nothing after this point is judged
                        excluded_after_max += 1;
                        break;
                    }
                    if run.resync_model().is_err() {
                        break;
                    }
                    continue;
                }
                // ordinary op
                let exact = run.model_exact;
                let r = catch_unwind(AssertUnwindSafe(|| run.exec(op)));
                match r {
                    Ok(Ok(_)) => {}
                    Ok(Err(f)) => {
                        if exact {
                            return Err(Fail::new(format!("before-probe/{}", f.key), f.msg));
                        }
                        // after a probe the model is only a mirror: divergence ends the case
                        break;
                    }
                    Err(p) => {
                        let k = if run.saw_index_max { "index-near-u64max".to_string() } else if exact { "panic/legal-op".to_string() } else { "panic/legal-op-after-probe".to_string() };
                        let f = Fail::new(k.clone(), format!("{:?} panicked: {} ({})", op, panic_msg(&p), last_panic_location()));
                        if ctx.known.is_known(&k) {
                            known.push((f.key, f.msg));
                            break;
                        }
                        return Err(f);
                    }
                }
                if !exact {
                    if observers(run).is_err() || run.resync_model().is_err() {
                        break;
                    }
                }
            }
            Ok((run.classes.clone(), nt, nprobe, known, excluded_after_max))
        });
        let ((classes, nt, nprobe, known, exmax), _ctl) = res?;
        info.evals += case.ops.len() as u64;
        for (k, v) in &classes.m {
            if !k.starts_with("__") {
                info.label_n(*k, *v);
            }
        }
        info.label_n("probes", nprobe);
        info.excluded = known.len() as u64 + exmax;
        info.known_hits = known;
        info.nontrivial = nt;
        Ok(info)
    }
}
