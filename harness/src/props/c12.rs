//! C12 — record codec round-trips and decoding is total (differential against the
//! reference codec; the coverage-guided half lives in /verif/fuzz).

use std::panic::catch_unwind;
use std::panic::AssertUnwindSafe;

use proptest::strategy::BoxedStrategy;
use raft_log::codeq::Decode;
use raft_log::codeq::Encode;
use raft_log::WALRecord;
use serde_json::json;

use crate::driver::panic_msg;
use crate::driver::Fail;
use crate::model::MState;
use crate::model::Rec;
use crate::ops::codec_case_strategy;
use crate::ops::mix;
use crate::ops::Case;
use crate::props::c11::to_rec;
use crate::refcodec;
use crate::refcodec::DecErr;
use crate::runner::CaseInfo;
use crate::runner::Ctx;
use crate::runner::Prop;
use crate::runner::ShardReport;
use crate::runner::Tier;
use crate::types::VT;

pub struct C12;

/// Build the crate's record value from a reference record (State goes through the crate's
/// own public State decoder, the only public constructor for arbitrary states).
pub fn to_wal(r: &Rec) -> WALRecord<VT> {
    match r {
        Rec::Vote(v) => WALRecord::SaveVote(*v),
        Rec::Append(id, p) => WALRecord::Append(*id, p.clone()),
        Rec::Commit(id) => WALRecord::Commit(*id),
        Rec::TruncateAfter(id) => WALRecord::TruncateAfter(*id),
        Rec::PurgeUpto(id) => WALRecord::PurgeUpto(*id),
        Rec::State(st) => {
            let mut b = vec![];
            refcodec::encode_state_body(&mut b, st);
            WALRecord::State(Decode::decode(&b[..]).expect("reference-encoded state decodes"))
        }
    }
}

/// A reader that hands out `first` bytes on its first call and at most `then` per later call.
struct Pieces<'a> {
    data: &'a [u8],
    pos: usize,
    first: usize,
    then: usize,
    calls: usize,
}

impl std::io::Read for Pieces<'_> {
    fn read(&mut self, out: &mut [u8]) -> std::io::Result<usize> {
        let lim = if self.calls == 0 { self.first } else { self.then };
        self.calls += 1;
        let n = out.len().min(lim).min(self.data.len() - self.pos);
        out[..n].copy_from_slice(&self.data[self.pos..self.pos + n]);
        self.pos += n;
        Ok(n)
    }
}

/// A writer with room for `room` bytes; then it fails like a full device.
struct Limited {
    buf: Vec<u8>,
    room: usize,
}

impl std::io::Write for Limited {
    fn write(&mut self, b: &[u8]) -> std::io::Result<usize> {
        let left = self.room - self.buf.len();
        if left == 0 && !b.is_empty() {
            return Err(std::io::Error::new(std::io::ErrorKind::WriteZero, "writer full"));
        }
        let n = b.len().min(left);
        self.buf.extend_from_slice(&b[..n]);
        Ok(n)
    }
    fn flush(&mut self) -> std::io::Result<()> {
        Ok(())
    }
}

#[derive(Debug, PartialEq, Eq)]
pub enum Dec {
    Ok(Rec, usize),
    Eof,
    Invalid,
}

pub fn crate_decode(bytes: &[u8]) -> Result<Dec, String> {
    let r = catch_unwind(AssertUnwindSafe(|| {
        let mut rd: &[u8] = bytes;
        let res = WALRecord::<VT>::decode(&mut rd);
        (res, bytes.len() - rd.len())
    }));
    match r {
        Ok((Ok(rec), used)) => Ok(Dec::Ok(to_rec(&rec), used)),
        Ok((Err(e), _)) => Ok(if e.kind() == std::io::ErrorKind::UnexpectedEof { Dec::Eof } else { Dec::Invalid }),
        Err(p) => Err(panic_msg(&p)),
    }
}

pub fn ref_decode(bytes: &[u8]) -> Dec {
    match refcodec::decode(bytes) {
        Ok((r, n)) => Dec::Ok(r, n),
        Err(DecErr::Eof) => Dec::Eof,
        Err(_) => Dec::Invalid,
    }
}

/// Total-decoding oracle for one byte string. Returns whether the input decoded Ok.
pub fn check_bytes(bytes: &[u8], what: &str) -> Result<bool, Fail> {
    let got = crate_decode(bytes).map_err(|p| Fail::new("decode-panic", format!("decoding {what} ({} bytes: {}) panicked: {p}", bytes.len(), hex(bytes))))?;
    let want = ref_decode(bytes);
    if got != want {
        return Err(Fail::new(
            "decode-differs-from-reference",
            format!("decoding {what} ({} bytes: {}): store decoder gives {:?}, reference decoder {:?}", bytes.len(), hex(bytes), short(&got), short(&want)),
        ));
    }
    if let Dec::Ok(rec, used) = &got {
        // canonical: re-encoding gives exactly the consumed bytes
        let mut out = vec![];
        let n = to_wal(rec).encode(&mut out).map_err(|e| Fail::new("encode-error", e.to_string()))?;
        if n != out.len() || out[..] != bytes[..*used] {
            return Err(Fail::new("decoded-record-reencodes-differently", format!("decoding {what}: record {:?} consumed {used} bytes {} but re-encodes to {} bytes {}", short(&got), hex(&bytes[..*used]), out.len(), hex(&out))));
        }
        return Ok(true);
    }
    Ok(false)
}

fn hex(b: &[u8]) -> String {
    let mut s: String = b.iter().take(80).map(|x| format!("{:02x}", x)).collect();
    if b.len() > 80 {
        s.push_str("..");
    }
    s
}

fn short(d: &Dec) -> String {
    let s = format!("{:?}", d);
    s.chars().take(300).collect()
}

pub fn check_record(rec: &Rec, sel: u64, exhaustive: bool) -> Result<(u64, u64), Fail> {
    let mut evals = 0u64;
    let mut ok_from_mutation = 0u64;
    let want = refcodec::encode(rec);
    // 1. encode
    let w = to_wal(rec);
    let mut buf = vec![];
    let n = catch_unwind(AssertUnwindSafe(|| w.encode(&mut buf))).map_err(|p| Fail::new("encode-panic", panic_msg(&p)))?.map_err(|e| Fail::new("encode-error", e.to_string()))?;
    evals += 1;
    if n != buf.len() {
        return Err(Fail::new("encode-length", format!("encode({:?}) reported {n} bytes but wrote {}", brief_rec(rec), buf.len())));
    }
    if buf != want {
        return Err(Fail::new("encode-differs-from-reference", format!("encode({:?}) = {} but the reference encoding is {}", brief_rec(rec), hex(&buf), hex(&want))));
    }
    // 2. decode(bytes ++ junk): equal record, consumes exactly n
    for junk_len in [0usize, 1, 9, 40] {
        let mut b = buf.clone();
        for k in 0..junk_len {
            b.push((mix(sel, k as u64) & 0xff) as u8);
        }
        evals += 1;
        match crate_decode(&b).map_err(|p| Fail::new("decode-panic", p))? {
            Dec::Ok(r2, used) => {
                if r2 != *rec || used != n {
                    return Err(Fail::new("roundtrip", format!("decode(encode(r) ++ {junk_len} junk bytes): got {:?} consuming {used} bytes, expected the record itself consuming {n}; r = {:?}", brief_rec(&r2), brief_rec(rec))));
                }
            }
            other => return Err(Fail::new("roundtrip", format!("decode(encode(r) ++ {junk_len} junk bytes) failed: {:?}; r = {:?}", other, brief_rec(rec)))),
        }
    }
    // 2b. the decoder takes any `Read`: a reader that delivers the same bytes in pieces (a
    // BufReader refilling at a buffer boundary, a pipe) must give the same record. Piece sizes:
    // 1 byte, a generated small size, and a split at every offset of the first 24 bytes.
    {
        let mut b = buf.clone();
        b.extend_from_slice(&[0xAB; 7]);
        let k2 = 2 + (mix(sel, 31) % 11) as usize;
        let mut plans: Vec<(usize, usize)> = vec![(1, 1), (k2, k2)];
        for first in 1..buf.len().min(24) {
            plans.push((first, usize::MAX));
        }
        for (first, then) in plans {
            evals += 1;
            let r = catch_unwind(AssertUnwindSafe(|| {
                let mut rd = Pieces { data: &b, pos: 0, first, then, calls: 0 };
                let res = WALRecord::<VT>::decode(&mut rd);
                (res, rd.pos)
            }))
            .map_err(|p| Fail::new("decode-panic", format!("decoding through a reader that delivers {first} then {then} bytes per call panicked: {}", panic_msg(&p))))?;
            match r {
                (Ok(got), used) => {
                    let got = to_rec(&got);
                    if got != *rec || used != n {
                        return Err(Fail::new("roundtrip-piecewise-reader", format!("decoding encode(r) through a reader that delivers {first} bytes, then {then} per call: got {:?} consuming {used} bytes, expected the record itself consuming {n}; r = {:?}", brief_rec(&got), brief_rec(rec))));
                    }
                }
                (Err(e), _) => {
                    return Err(Fail::new("roundtrip-piecewise-reader", format!("decoding encode(r) through a reader that delivers {first} bytes, then {then} per call failed: {e} ({:?}); from a slice the same bytes decode; r = {:?}", e.kind(), brief_rec(rec))));
                }
            }
        }
    }
    // 2c. a failed encode (the writer runs full) must not disturb the next encode
    {
        for room in [0usize, 3, 4, n / 2, n.saturating_sub(1)] {
            if room >= n {
                continue;
            }
            evals += 1;
            let r = catch_unwind(AssertUnwindSafe(|| {
                let mut small = Limited { buf: Vec::new(), room };
                let first = w.encode(&mut small);
                let mut again = vec![];
                let second = w.encode(&mut again);
                (first.is_ok(), second, again)
            }))
            .map_err(|p| Fail::new("encode-panic", format!("encode into a writer with room for {room} bytes panicked: {}", panic_msg(&p))))?;
            let (first_ok, second, again) = r;
            if first_ok {
                return Err(Fail::new("encode-into-full-writer-ok", format!("encode({:?}) into a writer with room for {room} of {n} bytes returned Ok", brief_rec(rec))));
            }
            match second {
                Ok(m) if m == n && again == want => {}
                other => {
                    return Err(Fail::new("encode-after-failed-encode", format!("after an encode that failed (writer full after {room} bytes) the next encode({:?}) reported {:?} and wrote {} bytes {}; expected {n} bytes {}", brief_rec(rec), other.map_err(|e| e.to_string()), again.len(), hex(&again), hex(&want))));
                }
            }
        }
    }
    // 2d. Damage the checksum does not betray: the type tag / body is altered (one byte set to
    // another value, the last body byte dropped, one byte inserted) and the checksum is then
    // recomputed over the altered bytes — what a buggy or foreign writer would produce. The
    // decoder must still agree with the reference decoder (which accepts only canonical
    // encodings), i.e. refuse or decode to a record that re-encodes to exactly those bytes.
    {
        let body_end = buf.len() - 8;
        let reseal = |mut b: Vec<u8>| -> Vec<u8> {
            let crc = crc32fast::hash(&b) as u64;
            b.extend_from_slice(&crc.to_be_bytes());
            b
        };
        let lim = body_end.min(if exhaustive { 300 } else { 40 });
        let mut positions: Vec<usize> = (0..lim).collect();
        for k in 0..8u64 {
            if body_end > 0 {
                positions.push((mix(sel, 2000 + k) % body_end as u64) as usize);
            }
        }
        positions.sort();
        positions.dedup();
        for &pos in &positions {
            let o = buf[pos];
            for v in [0u8, 1, 2, 5, 0x80, 0xff, o.wrapping_add(1), o ^ 1] {
                if v == o {
                    continue;
                }
                let mut b = buf[..body_end].to_vec();
                b[pos] = v;
                evals += 1;
                if check_bytes(&reseal(b), "an encoding altered in one byte with the checksum recomputed")? {
                    ok_from_mutation += 1;
                }
            }
        }
        if body_end > 4 {
            evals += 2;
            let mut b = buf[..body_end].to_vec();
            b.pop();
            check_bytes(&reseal(b), "an encoding whose last body byte was dropped, checksum recomputed")?;
            let mut b = buf[..body_end].to_vec();
            b.insert(4 + (mix(sel, 77) % (body_end as u64 - 3)) as usize, 0);
            check_bytes(&reseal(b), "an encoding with one inserted zero byte, checksum recomputed")?;
            // State records: a different version byte with the last field dropped
            if matches!(rec, Rec::State(_)) {
                for ver in [0u8, 2] {
                    for drop in [1usize, 2] {
                        if body_end > 5 + drop {
                            let mut b = buf[..body_end - drop].to_vec();
                            b[4] = ver;
                            evals += 1;
                            check_bytes(&reseal(b), "a State record with another version byte and a shorter body, checksum recomputed")?;
                        }
                    }
                }
            }
        }
    }
    // 3. truncations and single-byte mutations
    let len = buf.len();
    let exhaustive = exhaustive && len <= 300;
    let positions: Vec<usize> = if exhaustive || len <= 160 { (0..len).collect() } else {
        let mut v: Vec<usize> = (0..48).chain(len - 24..len).collect();
        for k in 0..40 {
            v.push((mix(sel, 1000 + k) % len as u64) as usize);
        }
        v.sort();
        v.dedup();
        v
    };
    for &cut in &positions {
        evals += 1;
        if check_bytes(&buf[..cut], "a truncated encoding")? {
            return Err(Fail::new("truncated-encoding-decodes", format!("the first {cut} of {len} bytes of encode({:?}) decode successfully", brief_rec(rec))));
        }
    }
    for &pos in &positions {
        let o = buf[pos];
        let vals: Vec<u8> = if exhaustive { (0..=255u8).filter(|v| *v != o).collect() } else { vec![o ^ 1, o ^ 0x80, o.wrapping_add(1), o.wrapping_sub(1), 0, 0xff, o ^ (1 << (mix(sel, pos as u64) % 8))] };
        for v in vals {
            if v == o {
                continue;
            }
            let mut m = buf.clone();
            m[pos] = v;
            evals += 1;
            if check_bytes(&m, "a mutated encoding")? {
                ok_from_mutation += 1;
            }
        }
    }
    Ok((evals, ok_from_mutation))
}

fn brief_rec(r: &Rec) -> String {
    format!("{:?}", r).chars().take(200).collect()
}

pub fn fuzz_corpus_files() -> Vec<std::path::PathBuf> {
    let mut v = vec![];
    let home = crate::runner::verif_home();
    for d in [format!("{}/fuzz/corpus/c12_decode", home), format!("{}/corpus/C12/bytes", home)] {
        if let Ok(rd) = std::fs::read_dir(d) {
            for e in rd.flatten() {
                if e.path().is_file() {
                    v.push(e.path());
                }
            }
        }
    }
    v.sort();
    v
}

impl Prop for C12 {
    fn id(&self) -> &'static str {
        "C12"
    }
    fn level(&self) -> &'static str {
        "exploration"
    }
    fn rule(&self) -> String {
        "proptest generates records of all six kinds with every Option combination, integers from {0,1,2^32-1,2^32,2^32+1,2^63,u64::MAX-1,u64::MAX,random}, strings empty / ASCII / arbitrary Unicode / up to 8 KiB, plus arbitrary byte strings. \
         Oracle per record: encode returns n = bytes written = the reference encoding; decode(bytes ++ junk) gives the equal record and consumes exactly n; every truncation fails; every single-byte mutation (all offsets for encodings <= 160 bytes, else head, tail and sampled offsets; 7 values, thorough: all 255) and every arbitrary byte string must not panic and must agree with the independent reference decoder on Ok/UnexpectedEof/invalid, on the record and on the consumed length, \
         and a successfully decoded record must re-encode to exactly the consumed bytes (canonical encoding). The saved libFuzzer corpus of /verif/fuzz (target c12_decode, same oracle) and the repository's chunk files are replayed in every tier; the thorough tier also runs the coverage-guided campaign. \
         A case is non-trivial iff it contains a State record with >=3 Some fields or a multi-byte / >1 KiB string; distinct = case hash."
            .to_string()
    }
    fn assumptions(&self) -> Vec<String> {
        vec!["reference codec in harness/src/refcodec.rs written from the format description".into(), "concrete Types: LogId/Vote = (u64,u64), payload/user data = String".into()]
    }
    fn cases(&self, tier: Tier) -> u32 {
        match tier {
            Tier::Quick => 250,
            Tier::Thorough => 3_000,
        }
    }
    fn strategy(&self, _tier: Tier) -> BoxedStrategy<Case> {
        codec_case_strategy(6)
    }
    fn fixed_cases(&self) -> Vec<Case> {
        // the record kinds of the crate's own codec tests
        let st = MState { vote: Some((1, 2)), last: Some((2, 3)), committed: Some((4, 5)), purged: Some((6, 7)), user_data: Some("hello".into()) };
        let recs = vec![Rec::Vote((1, 2)), Rec::Append((1, 2), "hello".into()), Rec::Commit((1, 2)), Rec::TruncateAfter(Some((1, 2))), Rec::TruncateAfter(None), Rec::PurgeUpto((1, 2)), Rec::State(st), Rec::State(MState::default())];
        vec![Case { recs, blobs: vec![vec![], vec![0; 28], vec![0, 0, 0, 5, 1, 0, 0, 0, 0, 0]], ..crate::ops::sample_case() }]
    }
    fn run_case(&self, case: &Case, ctx: &Ctx) -> Result<CaseInfo, Fail> {
        let mut info = CaseInfo::default();
        let mut rich = false;
        for (i, r) in case.recs.iter().enumerate() {
            let (e, okm) = check_record(r, mix(case.sel, i as u64), ctx.tier == Tier::Thorough && i == 0)?;
            info.evals += e;
            info.label(format!("kind_{}", r.kind()));
            info.label_n("mutations_decoding_ok", okm);
            match r {
                Rec::State(s) => {
                    let n = [s.vote.is_some(), s.last.is_some(), s.committed.is_some(), s.purged.is_some(), s.user_data.is_some()].iter().filter(|x| **x).count();
                    if n >= 3 {
                        rich = true;
                    }
                    if let Some(u) = &s.user_data {
                        if !u.is_ascii() || u.len() > 1024 {
                            rich = true;
                        }
                    }
                }
                Rec::Append(_, p) => {
                    if !p.is_ascii() || p.len() > 1024 {
                        rich = true;
                    }
                }
                _ => {}
            }
        }
        for b in &case.blobs {
            info.evals += 1;
            if check_bytes(b, "an arbitrary byte string")? {
                info.label("blob_decoding_ok");
            }
        }
        info.nontrivial = rich;
        if rich {
            info.sample = Some(json!({"records": case.recs.iter().map(brief_rec).collect::<Vec<_>>(), "blobs": case.blobs.len()}));
        }
        Ok(info)
    }
    fn extra(&self, ctx: &Ctx, shard: usize, rep: &mut ShardReport) {
        if shard != 0 {
            return;
        }
        // replay of saved fuzz inputs and of the repository's own chunk files
        let mut n = 0u64;
        let mut ok = 0u64;
        let mut inputs: Vec<(String, Vec<u8>)> = fuzz_corpus_files().into_iter().filter_map(|p| std::fs::read(&p).ok().map(|d| (p.display().to_string(), d))).collect();
        if let Ok(rd) = std::fs::read_dir("/repo/tests/compat/0.2.6/raft-log") {
            for e in rd.flatten() {
                if e.file_name().to_string_lossy().ends_with(".wal") {
                    if let Ok(d) = std::fs::read(e.path()) {
                        // every record boundary of the file is an input
                        let p = refcodec::parse_chunk(&d);
                        for b in p.boundaries() {
                            inputs.push((format!("{}@{}", e.path().display(), b), d[b..].to_vec()));
                        }
                    }
                }
            }
        }
        for (name, data) in inputs {
            n += 1;
            match check_bytes(&data, &name) {
                Ok(true) => ok += 1,
                Ok(false) => {}
                Err(f) => {
                    let case = Case { blobs: vec![data.clone()], recs: vec![], ..crate::ops::sample_case() };
                    rep.violations.push(crate::runner::Violation { key: f.key, msg: f.msg, case: serde_json::to_value(&case).unwrap(), origin: format!("saved input {}", name) });
                }
            }
        }
        if ctx.tier == Tier::Thorough {
            fuzz_campaign(ctx.seed, rep);
        }
        rep.evaluations += n;
        *rep.labels.entry("saved_fuzz_inputs_replayed".into()).or_insert(0) += n;
        *rep.labels.entry("saved_fuzz_inputs_decoding_ok".into()).or_insert(0) += ok;
        let _ = ctx;
    }
}

/// Thorough tier: the coverage-guided campaign (cargo-fuzz / libFuzzer, target c12_decode,
/// same oracle inside the target). A crash input becomes a violation with a replay file.
fn fuzz_campaign(seed: u64, rep: &mut ShardReport) {
    let runs = std::env::var("RLV_FUZZ_RUNS").ok().and_then(|s| s.parse::<u64>().ok()).unwrap_or(20_000_000);
    crate::fuzzrun::campaign("c12_decode", seed, runs, 512, &fuzz_corpus_files(), rep, &|d: &[u8]| match check_bytes(d, "a libFuzzer crash input") {
        Err(f) => f,
        Ok(_) => Fail::new("fuzz-target-crash", format!("libFuzzer reported a crash on {} bytes that the in-harness oracle accepts: {}", d.len(), hex(d))),
    });
}
