//! C06 — rejected writes leave no trace.

use proptest::strategy::BoxedStrategy;

use crate::driver::observe;
use crate::driver::Done;
use crate::driver::Fail;
use crate::driver::Run;
use crate::ops::case_strategy;
use crate::ops::Case;
use crate::ops::OpSpec;
use crate::ops::Profile;
use crate::props::c01::check_stat_layout;
use crate::props::c02::limited_cache;
use crate::props::c02::reopen_checked;
use crate::props::c11::check_dir_layout;
use crate::props::with_run;
use crate::runner::CaseInfo;
use crate::runner::Ctx;
use crate::runner::Prop;
use crate::runner::Tier;

pub struct C06;

pub fn profile(tier: Tier) -> Profile {
    let mut p = Profile::base(if tier == Tier::Quick { 40 } else { 100 });
    p.w_reject = 6;
    p.big_batches = true;
    p.w_reopen = 1;
    p.small_cache = true;
    p
}

#[derive(Debug, Clone, PartialEq)]
struct Obs {
    snap: crate::model::Snapshot,
    cache_items: u64,
    cache_size: u64,
    evictable: Option<(u64, u64)>,
    resident: Vec<((u64, u64), u64)>,
    chunks: Vec<(u64, u64, u64)>,
    on_disk: u64,
}

fn obs(run: &Run) -> Result<Obs, Fail> {
    let snap = observe(run.rl()).map_err(|e| Fail::new("read-error", e))?;
    let st = run.rl().stat();
    let mut chunks: Vec<(u64, u64, u64)> = st.closed_chunks.iter().map(|c| (c.chunk_id.0, c.records_count, c.global_end)).collect();
    chunks.push((st.open_chunk.chunk_id.0, st.open_chunk.records_count, st.open_chunk.global_end));
    Ok(Obs {
        snap,
        cache_items: st.payload_cache_item_count,
        cache_size: st.payload_cache_size,
        evictable: st.payload_cache_last_evictable,
        resident: run.rl().verif_cache_resident(),
        chunks,
        on_disk: run.rl().on_disk_size(),
    })
}

impl Prop for C06 {
    fn id(&self) -> &'static str {
        "C06"
    }
    fn level(&self) -> &'static str {
        "exploration"
    }
    fn rule(&self) -> String {
        "proptest generates legal histories with, at arbitrary points, a write the reference model rejects (vote with lower term / lower node, append of the same id with another payload, append with lower term, lower index, index gap, \
         commit going backwards, truncate beyond last+1, truncate at or below the purged index (>=1); and batches whose first 1-3 entries are legal and whose last entry is refused — there the accepted head is applied (a batch is not atomic by design) and the refused entry must leave no trace: state, entries, chunk list equal the model with the head only, the cache holds only live entries, and the final journal holds the head only). Oracle for the single-call rejections: the call returns Err; state, read(0,MAX), cache item count / size / boundary, the resident set, the chunk list and on_disk_size are identical before and after the call \
         (the worker is idle around it); all later ops follow the model; after a final flush the directory is byte-identical to the reference journal of the accepted writes only; a restart succeeds and shows the model state. \
         Non-trivial iff a rejection happens with >=1 entry cached and is followed by >=1 accepted write; distinct = case hash."
            .to_string()
    }
    fn assumptions(&self) -> Vec<String> {
        vec!["rejection classes are those of the sequential specification in the property statement; truncate(0) belongs to C16".into(), "a multi-entry append is applied entry by entry (not atomic): for a batch with a refused tail entry only the refused entry and what follows it must leave no trace".into()]
    }
    fn cases(&self, tier: Tier) -> u32 {
        match tier {
            Tier::Quick => 600,
            Tier::Thorough => 10_000,
        }
    }
    fn strategy(&self, tier: Tier) -> BoxedStrategy<Case> {
        case_strategy(&profile(tier))
    }
    fn extra(&self, ctx: &Ctx, shard: usize, rep: &mut crate::runner::ShardReport) {
        // The same property under a partially ordered vote type (two shards share the work):
        // an incomparable vote is refused and must leave no trace either.
        if shard > 1 {
            return;
        }
        let cases = if ctx.tier == Tier::Quick { 150 } else { 3000 };
        match crate::pvote::campaign(crate::ops::mix(ctx.seed, shard as u64), cases) {
            Ok((n, refused, incomparable)) => {
                rep.evaluations += n;
                *rep.labels.entry("pvote_histories".into()).or_insert(0) += n;
                *rep.labels.entry("pvote_refused_votes".into()).or_insert(0) += refused;
                *rep.labels.entry("pvote_refused_incomparable_votes".into()).or_insert(0) += incomparable;
            }
            Err(f) => rep.violations.push(crate::runner::Violation { key: f.key, msg: f.msg, case: serde_json::to_value(crate::ops::sample_case()).unwrap(), origin: "partially ordered votes".into() }),
        }
    }
    fn run_case(&self, case: &Case, _ctx: &Ctx) -> Result<CaseInfo, Fail> {
        let mut info = CaseInfo::default();
        let limited = limited_cache(case);
        let ((classes, excluded, nt, nrej), _ctl) = with_run(&case.cfg, false, &[], |run| {
            run.avoid_low_reappend = limited;
            let mut rejected_with_cache = false;
            let mut write_after_reject = false;
            let mut nrej = 0u64;
            for op in &case.ops {
                if matches!(op, OpSpec::Probe(_) | OpSpec::Steps(_)) {
                    continue;
                }
                if let OpSpec::Reopen { cfg } = op {
                    reopen_checked(run, cfg)?;
                    continue;
                }
                if let OpSpec::Reject { kind: crate::ops::RejectKind::BatchBadTail, .. } = op {
                    // A batch whose tail entry is refused: the accepted head is applied (the
                    // batch is not atomic, by design); the refused entry and the call's error
                    // must leave no trace beyond that head.
                    run.wait_stable();
                    let d = run.exec(op)?;
                    if let Done::Rejected { err, .. } = &d {
                        nrej += 1;
                        run.wait_stable();
                        let what = format!("after the refused batch ({err})");
                        let tag = |mut f: Fail| {
                            f.key = format!("rejected-batch-tail-left-trace/{}", f.key);
                            f.msg = format!("{what}: {}", f.msg);
                            f
                        };
                        run.check_state().map_err(tag)?;
                        run.check_full_read().map_err(tag)?;
                        check_stat_layout(run).map_err(tag)?;
                        let o = obs(run)?;
                        // (purged-but-pinned entries may legitimately stay resident; nothing beyond
                        // the last accepted index may)
                        let last_idx = run.model.st().last.map(|l| l.1).unwrap_or(0);
                        if let Some(bad) = o.resident.iter().find(|r| (r.0).1 > last_idx) {
                            return Err(Fail::new("rejected-batch-tail-left-trace/cache", format!("{what}: the payload cache holds {:?}, an index beyond the last accepted entry {:?}", bad, run.model.st().last)));
                        }
                        let sz: u64 = o.resident.iter().map(|r| r.1).sum();
                        if o.cache_items != o.resident.len() as u64 || o.cache_size != sz {
                            return Err(Fail::new("rejected-batch-tail-left-trace/cache-accounting", format!("{what}: stat {} items / {} bytes, resident {} / {}", o.cache_items, o.cache_size, o.resident.len(), sz)));
                        }
                        if o.cache_items > 0 {
                            rejected_with_cache = true;
                        }
                    }
                    continue;
                }
                if let OpSpec::Reject { kind, .. } = op {
                    run.wait_stable();
                    let before = obs(run)?;
                    let d = run.exec(op)?;
                    if let Done::Rejected { err, .. } = &d {
                        nrej += 1;
                        run.wait_stable();
                        let after = obs(run)?;
                        if after != before {
                            let what = if after.snap != before.snap {
                                "state/entries"
                            } else if after.chunks != before.chunks || after.on_disk != before.on_disk {
                                "journal"
                            } else {
                                "cache"
                            };
                            return Err(Fail::new(
                                format!("rejected-write-changed-{}/{:?}", what, kind),
                                format!("rejected call ({err}) changed the store:\n before {:?}\n after  {:?}", before, after),
                            ));
                        }
                        if before.cache_items > 0 {
                            rejected_with_cache = true;
                        }
                    }
                    continue;
                }
                let d = run.exec(op)?;
                if let Done::Wrote { .. } = d {
                    if rejected_with_cache {
                        write_after_reject = true;
                    }
                }
                run.check_state()?;
                run.check_full_read()?;
                check_stat_layout(run)?;
            }
            run.flush_and_settle()?;
            check_dir_layout(run).map_err(|mut f| {
                if nrej > 0 {
                    f.key = format!("rejected-write-journalled/{}", f.key);
                }
                f
            })?;
            let cfg = run.cfg.clone();
            reopen_checked(run, &cfg).map_err(|mut f| {
                if nrej > 0 && f.key == "clean-reopen-failed" {
                    f.key = "rejected-write-breaks-reopen".into();
                }
                f
            })?;
            Ok((run.classes.clone(), run.excluded, rejected_with_cache && write_after_reject, nrej))
        })?;
        info.evals += case.ops.len() as u64;
        for (k, v) in &classes.m {
            if !k.starts_with("__") {
                info.label_n(*k, *v);
            }
        }
        info.label_n("rejections", nrej);
        info.excluded = excluded;
        info.nontrivial = nt;
        Ok(info)
    }
}
