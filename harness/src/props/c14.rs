//! C14 — dropping the store quiesces it.

use std::time::Duration;
use std::time::Instant;

use proptest::strategy::BoxedStrategy;
use serde_json::json;

use crate::driver::Fail;
use crate::driver::Inst;
use crate::driver::Run;
use crate::driver::WATCHDOG;
use crate::ops::case_strategy;
use crate::ops::mix;
use crate::ops::Case;
use crate::ops::FirstSel;
use crate::ops::OpSpec;
use crate::ops::PaySel;
use crate::ops::Profile;
use crate::ops::TermSel;
use crate::props::with_run;
use crate::runner::CaseInfo;
use crate::runner::Ctx;
use crate::runner::Prop;
use crate::runner::Tier;
use crate::trace;
use crate::trace::Ev;
use crate::trace::Mark;
use crate::trace::Stable;

pub struct C14;

pub const KNOWN_LATE: &str = "old-worker-mutates-after-drop";

pub fn profile(tier: Tier) -> Profile {
    let mut p = Profile::base(if tier == Tier::Quick { 30 } else { 70 });
    p.w_steps = 5;
    p.w_flush = 4;
    p.w_purge = 7;
    p.w_read = 0;
    p.w_dropreopen = 2;
    p.with_alt = true;
    p
}

fn old_worker_gone(tid: i32, label: u32) -> bool {
    let retired = trace::with_ctl(|c| c.workers.iter().any(|w| w.label == label && w.tid != tid)).unwrap_or(true);
    retired || !trace::thread_alive(tid)
}

/// Let the old worker perform up to `k` of its remaining gated calls.
fn step_old(tid: i32, label: u32, k: u64) -> u64 {
    let mut done = 0;
    for _ in 0..k {
        if old_worker_gone(tid, label) {
            break;
        }
        let before = trace::steps_done(tid);
        trace::grant(tid, 1);
        let st = trace::wait_stable(tid, &|| false, WATCHDOG);
        trace::revoke(tid);
        if st == Stable::Timeout {
            // neither parked nor dead: blocked in recv() on a channel that is still open
            break;
        }
        if trace::steps_done(tid) > before {
            done += 1;
        }
        if st == Stable::Dead {
            break;
        }
    }
    done
}

/// Scheduler state of a thread of this process ('R' running/runnable, 'S' sleeping, ...).
fn thread_state(tid: i32) -> char {
    let s = std::fs::read_to_string(format!("/proc/self/task/{}/stat", tid)).unwrap_or_default();
    s.rsplit_once(')').and_then(|x| x.1.trim_start().chars().next()).unwrap_or('R')
}

struct CycleInfo {
    pending_at_drop: bool,
    old_steps_after_drop: u64,
}

/// flush, wait for exactly its acknowledgement, drop, reopen with the old worker's remaining
/// steps placed according to `place`, then use the new instance.
fn drop_reopen(run: &mut Run, place: u8, sel: u64, next_cfg: &crate::ops::CfgSpec) -> Result<CycleInfo, Fail> {
    // 1. last flush, stepped until its acknowledgement arrives
    let id = run.flush_call(true)?;
    let mut guard = 0;
    while trace::ack_of(id).is_none() {
        let (_, st) = run.step_worker(1);
        guard += 1;
        if st != Stable::Parked || guard > 2000 {
            break;
        }
    }
    match trace::ack_of(id) {
        Some(Ok(())) => {}
        other => return Err(Fail::new("flush-ack-missing", format!("last flush before drop: acknowledgement {:?}", other))),
    }
    // 1b. In some cycles the caller goes on writing after that acknowledgement and drops the
    // store without another flush: 1-3 operations (appends that rotate chunks, a purge that makes
    // closed chunks obsolete, a vote) stay unacknowledged. The directory must still open and
    // show a prefix of the issued writes that contains everything acknowledged.
    let acked_records = run.model.records.len();
    let n_extra = (mix(sel, 99) % 4) as usize;
    if n_extra > 0 {
        let extras = [
            OpSpec::Append { n: 3, term: TermSel::Same, first: FirstSel::Small(1), pay: PaySel::Tiny(6) },
            OpSpec::Purge { pos: (sel >> 12) as u16, beyond: 0, noop: false },
            OpSpec::Append { n: 2, term: TermSel::Bump(1), first: FirstSel::Zero, pay: PaySel::Mid },
            OpSpec::Vote { bump: 1, node: 1 },
            OpSpec::Purge { pos: 65535, beyond: 0, noop: false },
        ];
        let start = (mix(sel, 98) % extras.len() as u64) as usize;
        for k in 0..n_extra {
            run.exec(&extras[(start + k) % extras.len()])?;
        }
        run.classes.hit("unflushed_writes_before_drop");
    }
    let issued_records = run.model.records.len();
    // 2. drop on a helper thread (a drop that waits for the worker needs the worker stepped)
    let Inst { rl, worker, no } = run.inst.take().expect("store open");
    let pending_at_drop = trace::parked(worker).is_some() || !rl.verif_worker_idle();
    let (tid_tx, tid_rx) = std::sync::mpsc::channel::<i32>();
    let helper = std::thread::spawn(move || {
        let _ = tid_tx.send(trace::gettid());
        trace::mark(Mark::DropBegin(no));
        drop(rl);
        trace::mark(Mark::DropReturned(no));
    });
    let helper_tid = tid_rx.recv().unwrap_or(0);
    // The worker is only stepped once the dropping thread has been *blocked* (asleep, not
    // merely waiting for a CPU) for `stall`: a drop that does not wait returns as soon as it is
    // scheduled and is never helped along; a drop that waits for the worker is recognised after
    // `stall`. A few cycles use a long stall, so that a drop which waits only for a bounded
    // time (and then gives up) is seen returning with the worker's work still pending.
    let long = mix(sel, 4242) % 40 == 0;
    let stall = if long { Duration::from_millis(1300) } else { Duration::from_millis(2) };
    if long {
        run.classes.hit("long_stall_during_drop");
    }
    let t0 = Instant::now();
    let mut blocked_since: Option<Instant> = None;
    let mut during_drop = 0u64;
    loop {
        if helper.is_finished() {
            break;
        }
        let asleep = thread_state(helper_tid) != 'R';
        if !asleep {
            blocked_since = None;
            std::thread::yield_now();
        } else {
            let since = *blocked_since.get_or_insert_with(Instant::now);
            if since.elapsed() > stall {
                // the drop is waiting for the worker: let it advance
                during_drop += step_old(worker, no, 1);
            } else {
                std::thread::sleep(Duration::from_micros(100));
            }
        }
        if t0.elapsed() > WATCHDOG {
            crate::driver::inconclusive("drop did not return");
        }
    }
    let _ = helper.join();
    if during_drop > 0 {
        run.classes.hit("drop_waited_for_worker");
    }
    let mut after = 0u64;
    // 3. placement of the old worker's remaining steps
    if place == 0 {
        after += step_old(worker, no, 1000);
    } else if place == 4 {
        after += step_old(worker, no, 1);
    }
    run.classes.hit("reopen");
    run.open_store(next_cfg).map_err(|e| Fail::new("open-after-drop-failed", format!("open after flush-ack{} + drop failed: {e}", if issued_records > acked_records { " + unflushed writes" } else { "" })))?;
    if issued_records == acked_records {
        run.check_state()?;
        run.check_full_read()?;
    } else {
        // unflushed writes were pending at the drop: any prefix that contains the acknowledged
        // records is fine; the history continues from what the store shows
        let snap = crate::driver::observe(run.rl()).map_err(|e| Fail::new("read-error", format!("read after reopen failed: {e}")))?;
        match (acked_records..=issued_records).rev().find(|i| run.model.prefix[*i] == snap) {
            Some(i) => {
                if i < issued_records {
                    run.classes.hit("unflushed_writes_lost_at_drop");
                    run.model = crate::model::Model::from_snapshot(snap);
                    run.layout = None;
                }
            }
            None => {
                return Err(Fail::new(
                    "state-after-drop-is-no-acknowledged-prefix",
                    format!(
                        "flush acknowledged after {acked_records} records, {} more operations journalled without a flush, drop, reopen: the store shows state {:?} with {} entries {:?}, which is not the state after any prefix of the issued writes that contains the acknowledged ones (model after the acknowledged records: {:?})",
                        issued_records - acked_records, snap.st, snap.log.len(), crate::driver::brief(&snap.entries()), run.model.prefix[acked_records].st
                    ),
                ));
            }
        }
    }
    if place == 1 {
        after += step_old(worker, no, 1000);
    }
    // 4. the new instance keeps working: writes, purges, flushes complete
    let ops = [
        OpSpec::Append { n: 2, term: TermSel::Bump(1), first: FirstSel::Small(1), pay: PaySel::Tiny(4) },
        OpSpec::Purge { pos: (sel >> 8) as u16, beyond: 0, noop: false },
    ];
    for op in &ops {
        run.exec(op)?;
        run.check_state()?;
    }
    if place == 2 {
        after += step_old(worker, no, 1000);
    }
    run.flush_and_settle().map_err(|mut f| {
        f.key = format!("new-instance/{}", f.key);
        f
    })?;
    if place == 3 {
        after += step_old(worker, no, 1000);
    }
    let ops2 = [
        OpSpec::Append { n: 3, term: TermSel::Same, first: FirstSel::Zero, pay: PaySel::Tiny(2) },
        OpSpec::Purge { pos: (sel >> 24) as u16, beyond: 0, noop: false },
        OpSpec::Vote { bump: 1, node: 0 },
    ];
    for op in &ops2 {
        run.exec(op).map_err(|mut f| {
            f.key = format!("new-instance/{}", f.key);
            f
        })?;
    }
    run.flush_and_settle().map_err(|mut f| {
        f.key = format!("new-instance/{}", f.key);
        f
    })?;
    run.check_state()?;
    run.check_full_read()?;
    if !trace::thread_alive(run.worker()) {
        return Err(Fail::new("new-instance/worker-dead", "the new instance's flush worker is gone".to_string()));
    }
    // whatever is left of the old worker
    after += step_old(worker, no, 1000);
    if !old_worker_gone(worker, no) {
        trace::ungate(worker);
        run.old_workers.push(worker);
    }
    Ok(CycleInfo { pending_at_drop, old_steps_after_drop: after })
}

/// (a) nothing of a dropped instance may touch the directory after its drop returned.
fn late_mutations(ctl: &trace::Ctl) -> Option<String> {
    let owner = |pos: usize, tid: i32| -> Option<u32> { ctl.workers.iter().filter(|w| w.tid.abs() == tid && w.reg_pos <= pos).map(|w| w.label).last() };
    let mut dropped: Vec<(u32, usize)> = vec![];
    for (p, ev) in ctl.trace.iter().enumerate() {
        match ev {
            Ev::Mark(Mark::DropReturned(no)) => dropped.push((*no, p)),
            Ev::Write { tid, file, .. } | Ev::Truncate { tid, file, .. } | Ev::Unlink { tid, file, ok: true } => {
                if *tid != ctl.main_tid && owner(p, *tid).is_none() {
                    // neither the harness thread nor any registered flush worker: a thread some
                    // store instance started on its own
                    if let Some((no, dp)) = dropped.last() {
                        return Some(format!("a thread that is neither the caller nor a registered flush worker (tid {tid}) changed {} at trace position {p}, after drop() of store instance #{no} had returned (position {dp})", ctl.names[*file as usize]));
                    }
                }
                if let Some(label) = owner(p, *tid) {
                    if let Some((_, dp)) = dropped.iter().find(|d| d.0 == label) {
                        let what = match ev {
                            Ev::Write { .. } => "write to",
                            Ev::Truncate { .. } => "truncate of",
                            _ => "unlink of",
                        };
                        return Some(format!("the flush worker of store instance #{label} performed a {what} {} at trace position {p}, after drop() of that instance had returned (position {dp})", ctl.names[*file as usize]));
                    }
                }
            }
            _ => {}
        }
    }
    None
}

impl Prop for C14 {
    fn id(&self) -> &'static str {
        "C14"
    }
    fn level(&self) -> &'static str {
        "exploration"
    }
    fn rule(&self) -> String {
        "proptest generates (config, purge-heavy history with DropReopen ops, worker schedule, placement). A DropReopen cycle: flush, step the gated worker exactly until that flush's callback has fired, drop the store on a helper thread (stepping the worker only if the drop waits for it), \
         then place the old worker's remaining gated calls before / right after / between the operations of / after the new instance's open, purge and flush. Oracle: (a) in the trace, no write/truncate/unlink by a dropped instance's worker follows the return of its drop (worker identity by registration position, so re-used thread ids are not confused); \
         (b) open succeeds and state and read(0,MAX) equal the model (everything was acknowledged); (c) the new instance's appends, purges and flushes complete, every flush is acknowledged Ok and its worker is alive. \
         Non-trivial iff the old worker still had un-run work (parked at a gated call or not idle) when drop was called; distinct = case hash."
            .to_string()
    }
    fn assumptions(&self) -> Vec<String> {
        vec!["same-process reopen; the other-process case differs only in who holds the lock (C13)".into(), "placement granularity = gated calls of the old worker vs operations of the new instance".into()]
    }
    fn cases(&self, tier: Tier) -> u32 {
        match tier {
            Tier::Quick => 300,
            Tier::Thorough => 5_000,
        }
    }
    fn strategy(&self, tier: Tier) -> BoxedStrategy<Case> {
        case_strategy(&profile(tier))
    }
    fn run_case(&self, case: &Case, ctx: &Ctx) -> Result<CaseInfo, Fail> {
        let mut info = CaseInfo::default();
        let res = with_run(&case.cfg, true, &[], |run| {
            let mut pending = 0u64;
            let mut cycles = 0u64;
            let mut after = 0u64;
            let r = (|| -> Result<(), Fail> {
                for op in &case.ops {
                    match op {
                        OpSpec::Reject { .. } | OpSpec::Probe(_) | OpSpec::Readers { .. } | OpSpec::Read { .. } | OpSpec::Reopen { .. } => continue,
                        OpSpec::DropReopen { place } => {
                            let cfg = run.cfg.clone();
                            let ci = drop_reopen(run, *place, mix(case.sel, cycles), &cfg)?;
                            cycles += 1;
                            pending += ci.pending_at_drop as u64;
                            after += ci.old_steps_after_drop;
                        }
                        _ => {
                            run.exec(op)?;
                        }
                    }
                }
                let cfg = case.alt.clone().unwrap_or_else(|| run.cfg.clone());
                let ci = drop_reopen(run, (case.sel % 5) as u8, mix(case.sel, 99), &cfg)?;
                cycles += 1;
                pending += ci.pending_at_drop as u64;
                after += ci.old_steps_after_drop;
                Ok(())
            })();
            Ok((r, run.classes.clone(), pending, cycles, after))
        });
        let ((r, classes, pending, cycles, after), ctl) = res?;
        // (a) first: it is the root cause of whatever else went wrong
        if let Some(msg) = late_mutations(&ctl) {
            if ctx.known.is_known(KNOWN_LATE) {
                info.known_hits.push((KNOWN_LATE.to_string(), msg));
                info.excluded = 1;
            } else {
                return Err(Fail::new(KNOWN_LATE, msg));
            }
        } else {
            r?;
        }
        info.evals = case.ops.len() as u64 + cycles * 8;
        for (k, v) in &classes.m {
            if !k.starts_with("__") {
                info.label_n(*k, *v);
            }
        }
        info.label_n("drop_cycles", cycles);
        info.label_n("drops_with_pending_worker_steps", pending);
        info.label_n("old_worker_steps_after_drop_returned", after);
        info.nontrivial = pending > 0;
        if pending > 0 {
            info.sample = Some(json!({"case": case, "drop_cycles": cycles, "drops_with_pending_worker_steps": pending}));
        }
        Ok(info)
    }
}
