//! C15 — payload cache accounting is exact; only pinned entries may exceed the limits.

use proptest::strategy::BoxedStrategy;

use crate::driver::Done;
use crate::driver::Fail;
use crate::driver::Run;
use crate::ops::case_strategy;
use crate::ops::Case;
use crate::ops::OpSpec;
use crate::ops::Profile;
use crate::props::with_run;
use crate::runner::CaseInfo;
use crate::runner::Ctx;
use crate::runner::Prop;
use crate::runner::Tier;
use crate::trace::Stable;

pub struct C15;

pub fn profile(tier: Tier) -> Profile {
    let mut p = Profile::base(if tier == Tier::Quick { 40 } else { 100 });
    p.small_cache = true;
    p.big_batches = true;
    p.w_steps = 8;
    p.w_flush = 4;
    p.w_reopen = 1;
    p.w_reject = 2;
    p.w_purge = 4;
    p.w_truncate = 3;
    p.w_read = 0;
    p.big_chunks = true;
    p
}

/// stat() must equal the resident set; returns (count, size, boundary, resident ids).
fn accounting(run: &Run, when: &str) -> Result<(u64, u64, Option<(u64, u64)>, Vec<(u64, u64)>), Fail> {
    let st = run.rl().stat();
    let res = run.rl().verif_cache_resident();
    let st2 = run.rl().stat();
    // the worker only changes the boundary; take both stats to make sure nothing moved
    let n = res.len() as u64;
    let sz: u64 = res.iter().map(|r| r.1).sum();
    if st.payload_cache_item_count != n || st.payload_cache_size != sz || st2.payload_cache_item_count != n || st2.payload_cache_size != sz {
        return Err(Fail::new(
            "cache-accounting",
            format!(
                "{when}: stat() reports {} items / {} bytes but {} entries / {} bytes are resident ({:?})",
                st.payload_cache_item_count, st.payload_cache_size, n, sz, res
            ),
        ));
    }
    Ok((n, sz, st.payload_cache_last_evictable, res.iter().map(|r| r.0).collect()))
}

fn over_limit_only_pinned(run: &Run, when: &str) -> Result<bool, Fail> {
    let (n, sz, boundary, ids) = accounting(run, when)?;
    let st = run.rl().stat();
    let over = n > st.payload_cache_max_item || sz > st.payload_cache_capacity;
    if over {
        if let Some(bad) = ids.iter().find(|id| Some(**id) <= boundary) {
            return Err(Fail::new(
                "over-limit-evictable-resident",
                format!(
                    "{when}: cache holds {} items / {} bytes, over its limits {} / {}, yet resident entry {:?} is at or below the evictable boundary {:?}",
                    n, sz, st.payload_cache_max_item, st.payload_cache_capacity, bad, boundary
                ),
            ));
        }
    }
    Ok(over)
}

impl Prop for C15 {
    fn id(&self) -> &'static str {
        "C15"
    }
    fn level(&self) -> &'static str {
        "exploration"
    }
    fn rule(&self) -> String {
        "proptest generates (config with small cache limits incl. 0, history incl. truncations, purges of pinned entries, rejected writes, clean restarts, worker schedule); the worker is gated at every file-system call, so the eviction boundary cannot move during a caller op. \
         Oracle after every op and every single worker step: stat().payload_cache_item_count/size equal the count / summed payload size of the resident set returned by the guarded accessor. After every accepted append (the write that inserts and runs eviction): if count > max_items or size > capacity then every resident id is above the boundary reported at that moment. \
         At settled flushes and at the end: worker idle + drain_cache_evictable() leaves no resident id at or below the boundary. Non-trivial iff an over-limit state was observed or >=1 entry was evicted; distinct = case hash."
            .to_string()
    }
    fn assumptions(&self) -> Vec<String> {
        vec!["resident set read through the verif-hooks accessor RaftLog::verif_cache_resident()".into(), "worker timing explored at file-system-call granularity".into()]
    }
    fn cases(&self, tier: Tier) -> u32 {
        match tier {
            Tier::Quick => 500,
            Tier::Thorough => 8_000,
        }
    }
    fn strategy(&self, tier: Tier) -> BoxedStrategy<Case> {
        case_strategy(&profile(tier))
    }
    fn run_case(&self, case: &Case, _ctx: &Ctx) -> Result<CaseInfo, Fail> {
        let mut info = CaseInfo::default();
        let ((classes, over_seen, evicted), _ctl) = with_run(&case.cfg, true, &[], |run| {
            let mut over_seen = false;
            let mut evicted = false;
            let mut appended_total = 0u64;
            accounting(run, "after open")?;
            for op in &case.ops {
                match op {
                    OpSpec::Probe(_) | OpSpec::DropReopen { .. } | OpSpec::Readers { .. } | OpSpec::Read { .. } => continue,
                    OpSpec::Reopen { cfg } => {
                        run.clean_reopen(cfg)?;
                        accounting(run, "after reopen")?;
                    }
                    OpSpec::Steps(k) => {
                        let n = if *k == 255 { 400 } else { *k as u32 };
                        for _ in 0..n {
                            let (done, st) = run.step_worker(1);
                            if done > 0 {
                                run.classes.hit("worker_steps");
                            }
                            accounting(run, "after a worker step")?;
                            if st != Stable::Parked {
                                break;
                            }
                        }
                    }
                    _ => {
                        // The interpreter runs the worker to idle by itself once 40 caller ops have
                        // passed without an idle point (so that the request channel cannot fill
                        // up) — after the op, i.e. between the write and the observation below.
                        // The boundary "in force at that write" must not move in between: take
                        // that idle point before the op instead.
                        if run.ops_since_idle >= 35 {
                            run.run_to_idle();
                            accounting(run, "after the worker ran to idle")?;
                        }
                        let before = run.rl().verif_cache_resident().len() as u64;
                        let d = run.exec(op)?;
                        match d {
                            Done::Skipped => continue,
                            Done::Wrote { n, .. } => {
                                let what = format!("after {:?}", op);
                                // Eviction runs when entries are inserted, so the over-limit clause
                                // is judged after the writes that insert: appends. After other
                                // writes (the boundary may have moved since the last insert) only
                                // the accounting is compared.
                                if let OpSpec::Append { .. } = op {
                                    over_seen |= over_limit_only_pinned(run, &what)?;
                                } else {
                                    accounting(run, &what)?;
                                }
                                if let OpSpec::Append { .. } = op {
                                    appended_total += n as u64;
                                    let after = run.rl().verif_cache_resident().len() as u64;
                                    if after < before + n as u64 {
                                        evicted = true;
                                    }
                                }
                            }
                            Done::Rejected { kind: crate::ops::RejectKind::BatchBadTail, .. } => {
                                // the accepted head of the batch was inserted: the over-limit
                                // clause applies after this (partly refused) write as well
                                over_seen |= over_limit_only_pinned(run, "after a batch whose tail entry was refused")?;
                            }
                            Done::Flushed { .. } => {
                                accounting(run, "after flush")?;
                                if let OpSpec::Flush { wait: true, .. } = op {
                                    if run.worker_idle() {
                                        let n0 = run.rl().verif_cache_resident().len();
                                        run.rl().drain_cache_evictable();
                                        let (_, _, boundary, ids) = accounting(run, "after drain")?;
                                        if ids.len() < n0 {
                                            evicted = true;
                                        }
                                        if let Some(bad) = ids.iter().find(|id| Some(**id) <= boundary) {
                                            return Err(Fail::new("drain-left-evictable", format!("after worker idle + drain_cache_evictable(): resident entry {:?} is at or below the boundary {:?}", bad, boundary)));
                                        }
                                        run.classes.hit("drained");
                                    }
                                }
                            }
                            _ => {
                                accounting(run, "after op")?;
                            }
                        }
                    }
                }
            }
            run.run_to_idle();
            accounting(run, "at end, worker idle")?;
            let n0 = run.rl().verif_cache_resident().len();
            run.rl().drain_cache_evictable();
            let (_, _, boundary, ids) = accounting(run, "at end, after drain")?;
            if ids.len() < n0 {
                evicted = true;
            }
            if let Some(bad) = ids.iter().find(|id| Some(**id) <= boundary) {
                return Err(Fail::new("drain-left-evictable", format!("after worker idle + drain_cache_evictable(): resident entry {:?} is at or below the boundary {:?}", bad, boundary)));
            }
            let _ = appended_total;
            Ok((run.classes.clone(), over_seen, evicted))
        })?;
        info.evals += case.ops.len() as u64 + classes.n("worker_steps");
        for (k, v) in &classes.m {
            if !k.starts_with("__") {
                info.label_n(*k, *v);
            }
        }
        if over_seen {
            info.label("over_limit_state");
        }
        if evicted {
            info.label("eviction_seen");
        }
        info.nontrivial = over_seen || evicted;
        Ok(info)
    }
}
