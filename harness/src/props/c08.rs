//! C08 — chunk files are deleted only when obsolete and durably purged, oldest first.

use std::collections::BTreeMap;

use proptest::strategy::BoxedStrategy;
use serde_json::json;

use crate::crash;
use crate::crash::Outcome;
use crate::crash::Recorded;
use crate::driver::Fail;
use crate::model::apply_rec;
use crate::model::Rec;
use crate::model::Snapshot;
use crate::ops::case_strategy;
use crate::ops::Case;
use crate::ops::FaultGen;
use crate::ops::Profile;
use crate::props::c03::image_cfg;
use crate::refcodec;
use crate::runner::CaseInfo;
use crate::runner::Ctx;
use crate::runner::Prop;
use crate::runner::Tier;
use crate::shadowfs;
use crate::shadowfs::Shadow;
use crate::trace::Ev;

pub struct C08;

pub fn profile(tier: Tier) -> Profile {
    let mut p = Profile::base(if tier == Tier::Quick { 35 } else { 80 });
    p.w_steps = 6;
    p.w_flush = 5;
    p.w_purge = 7;
    p.w_truncate = 3;
    p.w_read = 0;
    p.w_reopen = 1;
    p.with_alt = true;
    p.faults = FaultGen::SyncAndUnlink;
    p
}

/// Replay the complete records of the chunk files (in name order) with the reference codec.
pub fn replay_files(img: &shadowfs::Image) -> Result<Snapshot, String> {
    let mut s = Snapshot::default();
    let files = shadowfs::ordered(img);
    let mut prev_end: Option<u64> = None;
    for (off, name, data) in files {
        if let Some(pe) = prev_end {
            if pe != off {
                return Err(format!("gap before {name}: previous file ends at {pe}"));
            }
        }
        let p = refcodec::parse_chunk(data);
        if p.valid_len() != data.len() {
            return Err(format!("{name} has an incomplete tail ({:?})", p.stop));
        }
        match p.recs.first() {
            Some(Rec::State(_)) => {}
            other => return Err(format!("{name} does not start with a State record but {:?}", other.map(|r| r.kind()))),
        }
        for r in &p.recs {
            apply_rec(&mut s, r);
        }
        prev_end = Some(off + data.len() as u64);
    }
    Ok(s)
}

struct EndInfo {
    purged_settled: bool,
    last_purge: Option<(usize, (u64, u64))>,
}

impl Prop for C08 {
    fn id(&self) -> &'static str {
        "C08"
    }
    fn level(&self) -> &'static str {
        "fault_enumeration"
    }
    fn rule(&self) -> String {
        "proptest generates (config, purge-heavy history incl. purges beyond last, lower-term re-appends and truncations, worker schedule, fault plan: failing fdatasyncs and failing unlinks). The run is traced with the worker gated at every call. Oracle at every successful unlink in the trace: \
         (a) the deleted file is the lowest-offset chunk file present; (b) crash right after the unlink keeping only synced bytes: the directory must open and show a model prefix within [acknowledged, issued] — i.e. the purge that made the chunk obsolete is durable in the remaining files — \
         and must show the same state as the same image with the deleted file put back; (c) the remaining files are consecutive chunks of the expected journal (no hole) and the first starts with a State record. \
         At the end (flush acknowledged Ok, worker idle, no EIO/ENOSPC injected): the remaining files replayed with the reference decoder give exactly the model state and entries, and every chunk that was closed when the last effective purge was called, whose last log index at closing and whose every Append index are <= the purged index (and all older chunks likewise) is gone. \
         Non-trivial iff >=1 unlink was judged; distinct = case hash."
            .to_string()
    }
    fn assumptions(&self) -> Vec<String> {
        vec![
            "liveness clause demanded only for chunks already closed when the purge was called and only in the conservative reading (closing last index and every stored index at or below the purge point)".into(),
            "crash model as in C03; images of the known C05 rotation-gap class are skipped in oracle (b)".into(),
        ]
    }
    fn cases(&self, tier: Tier) -> u32 {
        match tier {
            Tier::Quick => 400,
            Tier::Thorough => 6_000,
        }
    }
    fn strategy(&self, tier: Tier) -> BoxedStrategy<Case> {
        case_strategy(&profile(tier))
    }
    fn run_case(&self, case: &Case, ctx: &Ctx) -> Result<CaseInfo, Fail> {
        let mut info = CaseInfo::default();
        let (rec, end) = crash::record_with(case, false, true, |run| {
            // final flush so that scheduled removals are sent; settle. One case in three ends
            // without it: the store is then dropped with a purge (and the removals it scheduled)
            // still unflushed — nothing may be deleted on the way out.
            let mut settled = false;
            let plain_end = case.sel % 3 == 0;
            if plain_end {
                run.classes.hit("ended_without_final_flush");
            }
            if !plain_end && run.inst.is_some() && crate::trace::thread_alive(run.worker()) {
                if let Ok(id) = run.flush_call(true) {
                    let _ = run.wait_ack(id);
                    settled = matches!(crate::trace::ack_of(id), Some(Ok(()))) && run.worker_idle();
                }
            }
            Ok(EndInfo { purged_settled: settled, last_purge: run.last_purge })
        })?;
        let icfg = image_cfg(case);
        let gap_known = crate::runner::Known::load().for_prop("C05").iter().any(|e| e.key == "previous-chunk-tail-missing/err");
        let mut sh = Shadow::default();
        let mut unlinks = 0u64;
        let mut evals = 0u64;
        let mut skipped_known = 0u64;
        let mut bcache: BTreeMap<usize, crash::Bounds> = BTreeMap::new();
        for (q, ev) in rec.trace.iter().enumerate() {
            if let Ev::Unlink { file, ok: true, .. } = ev {
                let name = rec.names[*file as usize].clone();
                if refcodec::parse_chunk_file_name(&name).is_none() {
                    // not a chunk file (e.g. a temporary name): nothing of the journal is deleted
                    sh.apply(q, ev);
                    continue;
                }
                unlinks += 1;
                let off = refcodec::parse_chunk_file_name(&name).unwrap_or(0);
                // (a) oldest first
                let older: Vec<String> = sh.files.iter().enumerate().filter(|(i, f)| f.exists && refcodec::parse_chunk_file_name(&rec.names[*i]).map(|o| o < off).unwrap_or(false)).map(|(i, _)| rec.names[i].clone()).collect();
                if !older.is_empty() {
                    return Err(Fail::new("unlink-not-oldest", format!("{name} was deleted (trace position {q}) while older chunk files still exist: {:?}", older)));
                }
                // (b) durable image with and without the file
                let with = sh.durable_image(&rec.names);
                let mut without = with.clone();
                without.remove(&name);
                let b = *bcache.entry(q + 1).or_insert_with(|| crash::bounds_at(&rec, q + 1));
                // Only the rotation-gap class, and only while it is a listed known finding of C05,
                // is left out: such an image cannot be opened whatever the unlink did.
                if crash::image_class(&without, rec.layout.as_ref()) == Some("previous-chunk-tail-missing") && gap_known {
                    skipped_known += 1;
                } else {
                    evals += 2;
                    let o_without = crash::open_image(&without, &icfg, &rec.model, b.issued);
                    let o_with = crash::open_image(&with, &icfg, &rec.model, b.issued);
                    let ctxs = format!("power loss right after unlink of {name} (trace position {q}), only synced bytes kept; remaining: {}", crash::describe_image(&without));
                    match &o_without {
                        Outcome::Prefix(i) => {
                            if *i < b.acked || *i > b.issued {
                                return Err(Fail::new("unlink/acked-write-lost", format!("{ctxs}: recovery shows {i} records, bounds [{}, {}]", b.acked, b.issued)));
                            }
                            if let Outcome::Prefix(j) = &o_with {
                                if i != j {
                                    return Err(Fail::new("unlink-changes-recoverable-state", format!("{ctxs}: with the file the recovery shows the state after {j} records, without it after {i}")));
                                }
                            }
                        }
                        Outcome::NoPrefix(s) => {
                            return Err(Fail::new(
                                "unlink-before-purge-durable",
                                format!("{ctxs}: open succeeds but shows state {:?} with {} entries, which no prefix of the issued writes produces: the purge that made {name} obsolete is not durable in the remaining files", s.st, s.log.len()),
                            ));
                        }
                        Outcome::ReadErr(e) => return Err(Fail::new("unlink/read-error", format!("{ctxs}: read failed after recovery: {e}"))),
                        Outcome::Err(e) => return Err(Fail::new("unlink/open-failed", format!("{ctxs}: open returned Err: {e}"))),
                        Outcome::Panic(e) => return Err(Fail::new("unlink/open-panicked", format!("{ctxs}: open panicked: {e}"))),
                    }
                }
                // (c) remaining files abut and start with a State record
                sh.apply(q, ev);
                let img = sh.process_image(&rec.names);
                let files = shadowfs::ordered(&img);
                // no hole among the files: they are consecutive chunks of the expected journal
                // (a file may still miss its buffered tail — that transient is C05's rotation gap)
                if let Some(layout) = rec.layout.as_ref() {
                    let starts: Vec<u64> = layout.chunks.iter().map(|c| c.start).collect();
                    let idx: Vec<Option<usize>> = files.iter().map(|f| starts.iter().position(|s| *s == f.0)).collect();
                    let consecutive = idx.windows(2).all(|w| matches!((w[0], w[1]), (Some(a), Some(b)) if b == a + 1)) && idx.iter().all(|i| i.is_some());
                    if !consecutive {
                        return Err(Fail::new(
                            "remaining-files-not-a-suffix",
                            format!("after unlink of {name}: remaining files {:?} are not consecutive chunks of the journal (expected chunk starts {:?})", files.iter().map(|f| f.1).collect::<Vec<_>>(), starts),
                        ));
                    }
                }
                if let Some(first) = files.first() {
                    let p = refcodec::parse_chunk(first.2);
                    if !matches!(p.recs.first(), Some(Rec::State(_))) {
                        return Err(Fail::new("remaining-head-not-state", format!("after unlink of {name}: first remaining file {} does not start with a State record", first.1)));
                    }
                }
                continue;
            }
            sh.apply(q, ev);
        }
        // end-of-run clauses
        let clean_end = end.purged_settled && rec.hard_faults_hit == 0;
        if clean_end {
            let img = sh.process_image(&rec.names);
            match replay_files(&img) {
                Ok(s) => {
                    if s != rec.model.cur {
                        return Err(Fail::new(
                            "remaining-journal-differs",
                            format!("after the final acknowledged flush the remaining chunk files replay to state {:?} with {} entries, the model has {:?} with {} entries; files: {}", s.st, s.log.len(), rec.model.cur.st, rec.model.cur.log.len(), crash::describe_image(&img)),
                        ));
                    }
                }
                Err(e) => return Err(Fail::new("remaining-journal-broken", format!("after the final acknowledged flush: {e}; files: {}", crash::describe_image(&img)))),
            }
            evals += 1;
            if let (Some((n_closed, upto)), Some(layout)) = (end.last_purge, rec.layout.as_ref()) {
                for (k, c) in layout.chunks.iter().enumerate().take(n_closed.min(layout.chunks.len() - 1)) {
                    let closing_ok = match c.closed_last {
                        Some(Some(l)) => l.1 <= upto.1,
                        Some(None) => true,
                        None => false,
                    };
                    let all_idx_ok = c.recs.iter().all(|b| match refcodec::decode(b) {
                        Ok((Rec::Append(id, _), _)) => id.1 <= upto.1,
                        _ => true,
                    });
                    if !(closing_ok && all_idx_ok) {
                        break; // oldest-first: nothing younger has to be gone
                    }
                    let name = refcodec::chunk_file_name(c.start);
                    if img.contains_key(&name) {
                        return Err(Fail::new(
                            "obsolete-chunk-not-removed",
                            format!(
                                "purge({:?}) was flushed and acknowledged and the worker is idle, but closed chunk {} (#{k}, last log id at closing {:?}, every stored index <= {}) still exists; files: {}",
                                upto, name, c.closed_last, upto.1, crash::describe_image(&img)
                            ),
                        ));
                    }
                }
                evals += 1;
            }
        }
        info.evals = evals.max(1);
        for (k, v) in &rec.classes.m {
            if !k.starts_with("__") {
                info.label_n(*k, *v);
            }
        }
        info.label_n("unlinks_judged", unlinks);
        info.label_n("unlink_images_skipped_known_gap", skipped_known);
        info.label_n("hard_faults_hit", rec.hard_faults_hit as u64);
        if clean_end {
            info.label("clean_end_checked");
        }
        info.excluded = skipped_known;
        info.nontrivial = unlinks > 0;
        if unlinks > 0 && rec.hard_faults_hit > 0 {
            info.sample = Some(json!({"case": case, "unlinks": unlinks, "hard_faults_hit": rec.hard_faults_hit}));
        }
        let _ = ctx;
        Ok(info)
    }
}
