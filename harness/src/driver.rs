//! The interpreter: runs a case against the real store and the reference model in lock-step.

use std::collections::BTreeMap;
use std::panic::catch_unwind;
use std::panic::AssertUnwindSafe;
use std::sync::Arc;
use std::time::Duration;

use raft_log::api::raft_log_writer::RaftLogWriter;
use raft_log::codeq::OffsetSize;
use raft_log::RaftLog;
use raft_log::Segment;

use crate::model::next_index;
use crate::model::MState;
use crate::model::Model;
use crate::model::Rec;
use crate::model::Snapshot;
use crate::ops::pick;
use crate::ops::ArgSel;
use crate::ops::CfgSpec;
use crate::ops::FirstSel;
use crate::ops::OpSpec;
use crate::ops::PaySel;
use crate::ops::ProbeSpec;
use crate::ops::RejectKind;
use crate::ops::TermSel;
use crate::refcodec;
use crate::trace;
use crate::trace::Mark;
use crate::trace::Stable;
use crate::types::Cb;
use crate::types::LogId;
use crate::types::VT;

pub const WATCHDOG: Duration = Duration::from_secs(20);

/// A check failure. `key` names the *input class* (used to match known findings).
#[derive(Debug, Clone)]
pub struct Fail {
    pub key: String,
    pub msg: String,
}

impl Fail {
    pub fn new(key: impl ToString, msg: impl ToString) -> Self {
        Fail { key: key.to_string(), msg: msg.to_string() }
    }
}

/// The harness could not decide (hang, watchdog): never reported as a violation.
#[derive(Debug, Clone)]
pub struct Inconclusive(pub String);

pub fn inconclusive(msg: impl ToString) -> ! {
    eprintln!("INCONCLUSIVE: {}", msg.to_string());
    std::process::exit(2);
}

pub fn payload(term: u64, index: u64, sel: PaySel, k: u64) -> String {
    let size = match sel {
        PaySel::Empty => 0,
        PaySel::Tiny(n) => (n as usize + (k as usize % 3)).min(18),
        PaySel::Mid => 100 + (k as usize % 5),
        PaySel::Big => 5000,
        PaySel::Huge => 70_000,
    };
    let mut s = format!("{}.{}|", term, index);
    let mut c = (index % 26) as u8;
    while s.len() < size {
        s.push((b'a' + c) as char);
        c = (c + 1) % 26;
    }
    s.truncate(size);
    s
}

// ---------------------------------------------------------------------------------------
// Expected journal layout

#[derive(Debug, Clone)]
pub struct LChunk {
    pub start: u64,
    /// Encoded records; the first one is the head `State`.
    pub recs: Vec<Vec<u8>>,
    pub size: u64,
    /// `model.records.len()` when the chunk was started.
    pub first_record: usize,
    /// model last log id when the chunk was closed
    pub closed_last: Option<Option<LogId>>,
}

impl LChunk {
    pub fn bytes(&self) -> Vec<u8> {
        self.recs.concat()
    }
    pub fn end(&self) -> u64 {
        self.start + self.size
    }
}

#[derive(Debug, Clone)]
pub struct Layout {
    /// Every chunk the journal ever had, oldest first; the last one is the open chunk.
    pub chunks: Vec<LChunk>,
}

impl Layout {
    pub fn fresh() -> Self {
        let head = refcodec::encode(&Rec::State(MState::default()));
        let size = head.len() as u64;
        Layout { chunks: vec![LChunk { start: 0, recs: vec![head], size, first_record: 0, closed_last: None }] }
    }

    /// Journal one accepted record; returns its (global offset, size).
    pub fn on_record(&mut self, rec: &Rec, cfg: &CfgSpec, state_after: &MState, n_records_after: usize) -> (u64, u64) {
        let b = refcodec::encode(rec);
        let len = b.len() as u64;
        let open = self.chunks.last_mut().unwrap();
        let off = open.start + open.size;
        open.recs.push(b);
        open.size += len;
        if open.recs.len() >= cfg.max_records() || open.size as usize >= cfg.max_size() {
            open.closed_last = Some(state_after.last);
            let start = open.end();
            let head = refcodec::encode(&Rec::State(state_after.clone()));
            let size = head.len() as u64;
            self.chunks.push(LChunk { start, recs: vec![head], size, first_record: n_records_after, closed_last: None });
        }
        (off, len)
    }

    pub fn end(&self) -> u64 {
        self.chunks.last().unwrap().end()
    }
}

// ---------------------------------------------------------------------------------------

pub struct Inst {
    pub rl: RaftLog<VT>,
    pub worker: i32,
    pub no: u32,
}

#[derive(Debug, Clone)]
pub struct FlushInfo {
    pub id: u64,
    pub n_records: usize,
    pub j_end: u64,
    pub waited: bool,
    /// The store's own account of its chunks when `flush` was called: [start, end) in global
    /// offsets, closed chunks first, the open chunk last.
    pub chunks: Vec<(u64, u64)>,
}

#[derive(Debug, Clone, Default)]
pub struct Classes {
    pub m: BTreeMap<&'static str, u64>,
}

impl Classes {
    pub fn hit(&mut self, k: &'static str) {
        *self.m.entry(k).or_insert(0) += 1;
    }
    pub fn has(&self, k: &'static str) -> bool {
        self.m.get(k).copied().unwrap_or(0) > 0
    }
    pub fn n(&self, k: &'static str) -> u64 {
        self.m.get(k).copied().unwrap_or(0)
    }
}

#[derive(Debug, Clone)]
pub enum Done {
    /// Accepted write that journalled `n` records; segment returned by the call.
    Wrote { n: usize, seg: (u64, u64), expect_seg: Option<(u64, u64)> },
    /// Purge at or below the purged index: accepted, nothing journalled.
    NoopPurge,
    Rejected { kind: RejectKind, err: String },
    Flushed { id: u64 },
    Read,
    Stepped { granted: u64, done: u64 },
    Reopened,
    Skipped,
    Probe { panicked: Option<String>, accepted: bool, desc: String },
    /// The call failed because a caller-side I/O fault was injected into it (a chunk file could
    /// not be created). What it left applied is taken from the store; the expected layout is
    /// unknown from here on.
    Faulted { err: String },
}

pub struct Run {
    pub dir: String,
    pub cfg: CfgSpec,
    pub inst: Option<Inst>,
    pub n_inst: u32,
    pub model: Model,
    pub layout: Option<Layout>,
    pub flushes: Vec<FlushInfo>,
    pub stepped: bool,
    pub classes: Classes,
    pub op_no: usize,
    pub ops_since_idle: usize,
    /// Workers of dropped instances that may still be alive.
    pub old_workers: Vec<i32>,
    /// After an unmodelled probe the model is only a best-effort mirror.
    pub model_exact: bool,
    /// Model state/log right before the last `Reject` op (for C06).
    pub last_err: Option<String>,
    /// Exclude the known class "re-append with a lower term than an earlier entry while the
    /// cache is limited" by construction: such appends get the highest term seen instead.
    pub avoid_low_reappend: bool,
    pub excluded: u64,
    /// Set once an index of u64::MAX has been handed to the store (C16 class).
    pub saw_index_max: bool,
    pub max_id_seen: Option<LogId>,
    /// `records_after_op[k]` = number of accepted records once op number `k` (1-based) returned.
    pub records_after_op: Vec<usize>,
    /// Last effective purge: (closed chunks of the expected layout right after it, purge id).
    pub last_purge: Option<(usize, LogId)>,
    /// Do not wait for / run the worker after caller ops (deep-queue scenario).
    pub no_auto_settle: bool,
    pub caller_faults_seen: u32,
}

fn seg_pair(s: &Segment) -> (u64, u64) {
    (s.offset().0, *s.size())
}

pub fn observed_state(rl: &RaftLog<VT>) -> MState {
    let s = rl.log_state();
    MState { vote: s.vote().copied(), last: s.last().copied(), committed: s.committed().copied(), purged: s.purged().copied(), user_data: s.user_data.clone() }
}

pub fn read_all(rl: &RaftLog<VT>, from: u64, to: u64) -> Result<Vec<(LogId, String)>, String> {
    let mut v = vec![];
    for r in rl.read(from, to) {
        match r {
            Ok(x) => v.push(x),
            Err(e) => return Err(e.to_string()),
        }
    }
    Ok(v)
}

pub fn observe(rl: &RaftLog<VT>) -> Result<Snapshot, String> {
    let st = observed_state(rl);
    let ents = read_all(rl, 0, u64::MAX)?;
    let mut log = BTreeMap::new();
    for (id, p) in ents {
        if log.insert(id.1, (id, p)).is_some() {
            return Err(format!("duplicate index {} in read(0,MAX)", id.1));
        }
    }
    Ok(Snapshot { st, log })
}

pub fn fresh_dir(tag: &str) -> String {
    use std::sync::atomic::AtomicU64;
    use std::sync::atomic::Ordering;
    static N: AtomicU64 = AtomicU64::new(0);
    let n = N.fetch_add(1, Ordering::Relaxed);
    let d = format!("/dev/shm/rlv-{}/{}{}", std::process::id(), tag, n);
    let _ = std::fs::remove_dir_all(&d);
    std::fs::create_dir_all(&d).expect("create case dir");
    d
}

pub fn remove_dir(d: &str) {
    let _ = std::fs::remove_dir_all(d);
}

impl Run {
    /// Start a run on a fresh directory. Tracing must already be active for `dir` if the
    /// caller wants a trace.
    pub fn start(dir: &str, cfg: &CfgSpec, stepped: bool) -> Result<Run, Fail> {
        let mut r = Run {
            dir: dir.to_string(),
            cfg: cfg.clone(),
            inst: None,
            n_inst: 0,
            model: Model::new(),
            layout: Some(Layout::fresh()),
            flushes: vec![],
            stepped,
            classes: Classes::default(),
            op_no: 0,
            ops_since_idle: 0,
            old_workers: vec![],
            model_exact: true,
            last_err: None,
            avoid_low_reappend: false,
            excluded: 0,
            saw_index_max: false,
            max_id_seen: None,
            records_after_op: vec![0],
            last_purge: None,
            no_auto_settle: false,
            caller_faults_seen: 0,
        };
        r.open_store(cfg).map_err(|e| Fail::new("open-fresh", format!("open of a fresh directory failed: {e}")))?;
        Ok(r)
    }

    /// Attach to an existing directory (e.g. a crash image) whose observable content is `snap`.
    pub fn attach(dir: &str, cfg: &CfgSpec, snap: Snapshot, stepped: bool) -> Result<Run, String> {
        let mut r = Run {
            dir: dir.to_string(),
            cfg: cfg.clone(),
            inst: None,
            n_inst: 0,
            model: Model::from_snapshot(snap),
            layout: None,
            flushes: vec![],
            stepped,
            classes: Classes::default(),
            op_no: 0,
            ops_since_idle: 0,
            old_workers: vec![],
            model_exact: true,
            last_err: None,
            avoid_low_reappend: false,
            excluded: 0,
            saw_index_max: false,
            max_id_seen: None,
            records_after_op: vec![0],
            last_purge: None,
            no_auto_settle: false,
            caller_faults_seen: 0,
        };
        r.max_id_seen = r.model.cur.log.values().map(|v| v.0).max().max(r.model.cur.st.last);
        if let Some(m) = r.max_id_seen {
            r.note_term(m.0);
        }
        r.open_store(cfg)?;
        Ok(r)
    }

    pub fn rl(&self) -> &RaftLog<VT> {
        &self.inst.as_ref().expect("store is open").rl
    }
    pub fn rl_mut(&mut self) -> &mut RaftLog<VT> {
        &mut self.inst.as_mut().expect("store is open").rl
    }
    pub fn worker(&self) -> i32 {
        self.inst.as_ref().expect("store is open").worker
    }

    pub fn open_store(&mut self, cfg: &CfgSpec) -> Result<(), String> {
        let no = self.n_inst;
        trace::mark(Mark::OpenBegin(no));
        let before = trace::task_tids();
        let config = Arc::new(cfg.to_config(&self.dir));
        let res = catch_unwind(AssertUnwindSafe(|| RaftLog::<VT>::open(config)));
        let rl = match res {
            Ok(Ok(rl)) => rl,
            Ok(Err(e)) => return Err(format!("Err: {e}")),
            Err(p) => return Err(format!("panic: {}", panic_msg(&p))),
        };
        let after = trace::task_tids();
        let new: Vec<i32> = after.into_iter().filter(|t| !before.contains(t)).collect();
        if new.len() != 1 {
            inconclusive(format!("cannot identify the flush worker thread: new tids {:?}", new));
        }
        let worker = new[0];
        if trace::is_active() {
            trace::register_worker(worker, self.stepped, no);
        }
        trace::mark(Mark::OpenReturned(no));
        self.n_inst += 1;
        self.cfg = cfg.clone();
        self.inst = Some(Inst { rl, worker, no });
        self.ops_since_idle = 0;
        Ok(())
    }

    /// Drop the store. With `quiesce`, first let its worker finish everything and wait
    /// until the thread is gone.
    pub fn drop_store(&mut self, quiesce: bool) {
        if let Some(inst) = self.inst.take() {
            let Inst { rl, worker, no } = inst;
            if quiesce && self.stepped {
                trace::ungate(worker);
            }
            trace::mark(Mark::DropBegin(no));
            drop(rl);
            trace::mark(Mark::DropReturned(no));
            if quiesce {
                if !trace::wait_dead(worker, WATCHDOG) {
                    inconclusive("flush worker did not exit after drop");
                }
            } else {
                self.old_workers.push(worker);
            }
        }
    }

    /// End of a case: drop everything and make sure no worker thread survives.
    pub fn finish(&mut self) {
        self.drop_store(true);
        for w in std::mem::take(&mut self.old_workers) {
            trace::ungate(w);
            if !trace::wait_dead(w, WATCHDOG) {
                inconclusive("old flush worker did not exit");
            }
        }
    }

    pub fn worker_idle(&self) -> bool {
        match &self.inst {
            Some(i) => i.rl.verif_worker_idle(),
            None => true,
        }
    }

    /// Wait until the current worker is parked / idle / dead.
    pub fn wait_stable(&self) -> Stable {
        let Some(inst) = &self.inst else { return Stable::Idle };
        let rl = &inst.rl;
        let st = trace::wait_stable(inst.worker, &|| rl.verif_worker_idle(), WATCHDOG);
        if st == Stable::Timeout {
            inconclusive("worker neither parked, idle nor dead within the watchdog limit");
        }
        st
    }

    /// Let the worker perform up to `k` gated calls; returns how many it performed.
    pub fn step_worker(&mut self, k: u64) -> (u64, Stable) {
        let w = self.worker();
        let before = trace::steps_done(w);
        if !self.stepped {
            let st = self.wait_stable();
            return (0, st);
        }
        trace::grant(w, k);
        let st = self.wait_stable();
        trace::revoke(w);
        let done = trace::steps_done(w) - before;
        if st == Stable::Idle || st == Stable::Dead {
            self.ops_since_idle = 0;
        }
        (done, st)
    }

    pub fn run_to_idle(&mut self) -> Stable {
        if self.inst.is_none() {
            return Stable::Idle;
        }
        let (_, st) = self.step_worker(u64::MAX / 4);
        self.ops_since_idle = 0;
        st
    }

    fn after_caller_op(&mut self) {
        if self.no_auto_settle {
            return;
        }
        if self.stepped && self.inst.is_some() {
            self.ops_since_idle += 1;
            // the request channel holds 1024 entries; never let the caller block on it
            if self.ops_since_idle > 40 {
                self.run_to_idle();
            } else {
                self.wait_stable();
            }
        }
    }

    fn wrote(&mut self, res: Result<Segment, std::io::Error>, recs: &[Rec], what: &str) -> Result<Done, Fail> {
        // model already applied by the caller; journal the records into the layout
        let mut exp = None;
        let base = self.model.records.len() - recs.len();
        for (i, r) in recs.iter().enumerate() {
            // the layout needs the model state *after this record*
            let st = self.model.prefix[base + i + 1].st.clone();
            let n = base + i + 1;
            let cfg = self.cfg.clone();
            if let Some(l) = self.layout.as_mut() {
                let before = l.chunks.len();
                exp = Some(l.on_record(r, &cfg, &st, n));
                if l.chunks.len() > before {
                    self.classes.hit("rotation");
                }
            }
        }
        match res {
            Ok(seg) => Ok(Done::Wrote { n: recs.len(), seg: seg_pair(&seg), expect_seg: exp }),
            Err(e) => {
                let hit = trace::caller_faults_hit();
                if hit > self.caller_faults_seen {
                    // an injected caller-side failure: how much of the call was applied is the
                    // store's business (I/O error paths are not specified); go on from what it shows
                    self.caller_faults_seen = hit;
                    self.classes.hit("caller_create_fault");
                    self.model_exact = false;
                    self.resync_model().map_err(|m| Fail::new("read-error", format!("{what} failed on an injected chunk-creation error ({e}); afterwards the store cannot be read: {m}")))?;
                    return Ok(Done::Faulted { err: e.to_string() });
                }
                Err(Fail::new("legal-write-refused", format!("{what}: a write the sequential specification accepts returned Err: {e}")))
            }
        }
    }

    /// Execute one op against store and model.
    pub fn exec(&mut self, op: &OpSpec) -> Result<Done, Fail> {
        self.op_no += 1;
        let no = self.op_no;
        trace::mark(Mark::OpBegin(no));
        let r = self.exec_inner(op);
        while self.records_after_op.len() <= no {
            self.records_after_op.push(self.model.records.len());
        }
        self.records_after_op[no] = self.model.records.len();
        trace::mark(Mark::OpEnd(no));
        if r.is_ok() {
            match op {
                OpSpec::Steps(_) | OpSpec::Readers { .. } | OpSpec::Read { .. } => {}
                _ => self.after_caller_op(),
            }
        }
        r
    }

    fn exec_inner(&mut self, op: &OpSpec) -> Result<Done, Fail> {
        match op {
            OpSpec::Vote { bump, node } => {
                let cur = self.model.st().vote.unwrap_or((0, 0));
                let v = if *bump > 0 { (cur.0.saturating_add(*bump as u64), *node as u64) } else { (cur.0, cur.1.max(*node as u64)) };
                self.model.save_vote(v).map_err(|e| Fail::new("harness-resolve", format!("resolved vote {v:?} is not legal: {e:?}")))?;
                self.classes.hit("vote");
                let res = self.rl_mut().save_vote(v);
                self.wrote(res, &[Rec::Vote(v)], &format!("save_vote({v:?})"))
            }
            OpSpec::UserData { len } => {
                let ud = len.map(|l| {
                    let mut s = format!("ud{}:", self.op_no);
                    while s.len() < l as usize {
                        s.push('u');
                    }
                    s.truncate(l as usize);
                    s
                });
                self.model.save_user_data(ud.clone());
                self.classes.hit("user_data");
                let rec = self.model.records.last().unwrap().clone();
                let res = self.rl_mut().save_user_data(ud.clone());
                self.wrote(res, &[rec], "save_user_data")
            }
            OpSpec::Append { n, term, first, pay } => {
                let last = self.model.st().last;
                let (t0, i0) = match last {
                    Some((t, i)) => (t, i.saturating_add(1)),
                    None => (
                        1,
                        match first {
                            FirstSel::Zero => 0,
                            FirstSel::Small(k) => *k as u64,
                            FirstSel::Large => 1 << 40,
                        },
                    ),
                };
                let mut t = match term {
                    TermSel::Same => t0,
                    TermSel::Bump(k) => t0.saturating_add(*k as u64),
                };
                // Known class (C07): an entry whose log id is <= an id appended earlier can
                // fall at or below the eviction boundary although it is not yet on disk.
                if let Some(hi) = self.max_id_seen {
                    if (t, i0) <= hi {
                        if self.avoid_low_reappend {
                            t = hi.0.saturating_add(1);
                            self.excluded += 1;
                        } else {
                            self.classes.hit("reappend_at_or_below_earlier_id");
                        }
                    }
                }
                if last.is_none() && i0 != 0 {
                    self.classes.hit("first_index_nonzero");
                }
                if let Some(hi) = self.max_term_seen() {
                    if t < hi {
                        self.classes.hit("lower_term_reappend");
                    }
                }
                let mut entries = vec![];
                let mut recs = vec![];
                for k in 0..*n as u64 {
                    let id = (t, i0.saturating_add(k));
                    let p = payload(t, id.1, *pay, k);
                    self.model.append_one(id, p.clone()).map_err(|e| Fail::new("harness-resolve", format!("resolved append {id:?} is not legal: {e:?}")))?;
                    self.note_term(t);
                    if Some(id) > self.max_id_seen {
                        self.max_id_seen = Some(id);
                    }
                    recs.push(Rec::Append(id, p.clone()));
                    entries.push((id, p));
                }
                match pay {
                    PaySel::Empty => self.classes.hit("payload_empty"),
                    PaySel::Big | PaySel::Huge => self.classes.hit("payload_large"),
                    _ => {}
                }
                self.classes.hit("append");
                let what = format!("append({:?}..{} entries)", entries[0].0, entries.len());
                let res = self.rl_mut().append(entries);
                self.wrote(res, &recs, &what)
            }
            OpSpec::Truncate { pos } => {
                let lo = next_index(self.model.st().purged.as_ref());
                let mut cands = vec![lo];
                for k in self.model.cur.log.keys() {
                    let i = k.saturating_add(1);
                    if i != lo && *k != u64::MAX {
                        cands.push(i);
                    }
                }
                let index = cands[pick(*pos, cands.len())];
                let live_before = self.model.cur.log.len();
                self.model.truncate(index).map_err(|e| Fail::new("harness-resolve", format!("resolved truncate {index} is not legal: {e:?}")))?;
                if self.model.cur.log.len() < live_before {
                    self.classes.hit("truncate_removes");
                }
                self.classes.hit("truncate");
                let rec = self.model.records.last().unwrap().clone();
                let res = self.rl_mut().truncate(index);
                self.wrote(res, &[rec], &format!("truncate({index})"))
            }
            OpSpec::Purge { pos, beyond, noop } => {
                let st = self.model.st().clone();
                let live: Vec<LogId> = self.model.cur.log.values().map(|v| v.0).collect();
                // a purge into the hole below the first stored entry (a log whose first append was
                // at a non-zero index): nothing is removed, only the purge pointer moves
                let hole = match (self.model.first_live(), live.first()) {
                    (Some(f), Some(fid)) => {
                        let lo = next_index(st.purged.as_ref());
                        if f > lo && st.purged.map(|p| p.0 <= fid.0).unwrap_or(true) {
                            Some((fid.0, lo, f - lo))
                        } else {
                            None
                        }
                    }
                    _ => None,
                };
                let upto = if *noop && st.purged.is_some() {
                    st.purged.unwrap()
                } else if let (3, Some((t, lo, n))) = (*beyond, hole) {
                    self.classes.hit("purge_into_hole");
                    (t, lo + pick(*pos, n.min(1 << 20) as usize) as u64)
                } else if *beyond == 5 && live.len() >= 2 {
                    // a newer term at a live index below the last one: the entries above it stay
                    self.classes.hit("purge_inside_newer_term");
                    let t = st.last.map(|l| l.0).unwrap_or(1).max(live.last().unwrap().0);
                    (t.saturating_add(1), live[pick(*pos, live.len() - 1)].1)
                } else if let (4, Some((t, i))) = (*beyond, st.last) {
                    // a snapshot of a newer leader that ends exactly at our last index
                    self.classes.hit("purge_at_last_index_newer_term");
                    (t.saturating_add(1), i)
                } else if *beyond > 0 || live.is_empty() {
                    let b = (*beyond).max(1) as u64;
                    match st.last {
                        Some((t, i)) => (t.saturating_add((b > 1) as u64), i.saturating_add(b)),
                        None => (1, b),
                    }
                } else {
                    live[pick(*pos, live.len())]
                };
                if let Some(l) = st.last {
                    if upto.1 > l.1 {
                        self.classes.hit("purge_beyond_last");
                    }
                }
                let journalled = self.model.purge(upto);
                let res = self.rl_mut().purge(upto);
                if journalled {
                    self.classes.hit("purge");
                    let r = self.wrote(res, &[Rec::PurgeUpto(upto)], &format!("purge({upto:?})"));
                    if let Some(l) = &self.layout {
                        self.last_purge = Some((l.chunks.len() - 1, upto));
                    }
                    r
                } else {
                    self.classes.hit("purge_noop");
                    match res {
                        Ok(_) => Ok(Done::NoopPurge),
                        Err(e) => Err(Fail::new("legal-write-refused", format!("purge({upto:?}) at or below the purged index returned Err: {e}"))),
                    }
                }
            }
            OpSpec::Commit { pos, beyond } => {
                let st = self.model.st().clone();
                let mut cands: Vec<LogId> = self.model.cur.log.values().map(|v| v.0).filter(|id| Some(*id) >= st.committed).collect();
                if let Some(p) = st.purged {
                    if Some(p) >= st.committed {
                        cands.insert(0, p);
                    }
                }
                let id = if *beyond || cands.is_empty() {
                    if *beyond {
                        let t = st.last.map(|l| l.0).unwrap_or(0).max(st.committed.map(|c| c.0).unwrap_or(0)).saturating_add(1);
                        (t, st.last.map(|l| l.1).unwrap_or(0).saturating_add(3))
                    } else {
                        st.committed.unwrap_or((0, 0))
                    }
                } else {
                    cands[pick(*pos, cands.len())]
                };
                self.model.commit(id).map_err(|e| Fail::new("harness-resolve", format!("resolved commit {id:?} is not legal: {e:?}")))?;
                self.classes.hit("commit");
                let res = self.rl_mut().commit(id);
                self.wrote(res, &[Rec::Commit(id)], &format!("commit({id:?})"))
            }
            OpSpec::Flush { nocb: true, .. } => {
                // fire and forget: nothing to wait for, nothing acknowledged
                self.classes.hit("flush_without_callback");
                trace::mark(Mark::Note("flush(None)"));
                if let Err(e) = self.rl_mut().flush(None) {
                    return Err(Fail::new("flush-call-err", format!("flush(None) returned Err: {e}")));
                }
                Ok(Done::Skipped)
            }
            OpSpec::UpdateState { what, pos } => {
                let mut st = self.model.st().clone();
                let live: Vec<LogId> = self.model.cur.log.values().map(|v| v.0).collect();
                match what % 5 {
                    0 => {
                        let cur = st.vote.unwrap_or((0, 0));
                        st.vote = Some((cur.0.saturating_add(1), (*pos % 4) as u64));
                    }
                    1 => {
                        let c: Vec<LogId> = live.iter().copied().filter(|id| Some(*id) >= st.committed).collect();
                        if c.is_empty() {
                            return Ok(Done::Skipped);
                        }
                        st.committed = Some(c[pick(*pos, c.len())]);
                    }
                    2 => st.user_data = Some(format!("us{}", self.op_no)),
                    3 => {
                        if live.len() < 2 {
                            return Ok(Done::Skipped);
                        }
                        st.last = Some(live[pick(*pos, live.len() - 1)]);
                    }
                    _ => match st.last {
                        Some((t, i)) if i < u64::MAX - 100 => st.last = Some((t, i + 1)),
                        _ => return Ok(Done::Skipped),
                    },
                }
                self.classes.hit("update_state");
                let mut b = vec![];
                refcodec::encode_state_body(&mut b, &st);
                // the crate's state value is built through its public decoder
                let mut state = self.rl().log_state().clone();
                state.clone_from(&raft_log::codeq::Decode::decode(&b[..]).map_err(|e: std::io::Error| Fail::new("harness-resolve", format!("reference-encoded state does not decode: {e}")))?);
                self.model.update_state(st.clone());
                if let Some(l) = st.last {
                    if Some(l) > self.max_id_seen {
                        self.max_id_seen = Some(l);
                    }
                }
                let rec = self.model.records.last().unwrap().clone();
                let res = self.rl_mut().update_state(state);
                self.wrote(res, &[rec], &format!("update_state({st:?})"))
            }
            OpSpec::Flush { wait, .. } => {
                let id = self.flush_call(*wait)?;
                if *wait {
                    self.wait_ack(id)?;
                }
                Ok(Done::Flushed { id })
            }
            OpSpec::Steps(k) => {
                if !self.stepped || self.inst.is_none() {
                    return Ok(Done::Skipped);
                }
                let k = if *k == 255 { u64::MAX / 4 } else { *k as u64 };
                let (done, _st) = self.step_worker(k);
                if done > 0 {
                    self.classes.hit("worker_steps");
                }
                Ok(Done::Stepped { granted: k, done })
            }
            OpSpec::Read { from, len } => {
                let base = self.model.first_live().unwrap_or(next_index(self.model.st().purged.as_ref())).saturating_sub(2);
                let span = self.model.cur.log.len() + 4;
                let a = base + pick(*from, span) as u64;
                let b = if *len >= 1000 { u64::MAX } else { a + *len as u64 };
                self.check_range(a, b)?;
                Ok(Done::Read)
            }
            OpSpec::Reopen { cfg } => {
                self.clean_reopen(cfg)?;
                Ok(Done::Reopened)
            }
            OpSpec::Reject { kind, sel } => self.exec_reject(*kind, *sel),
            OpSpec::Probe(p) => self.exec_probe(p),
            OpSpec::Readers { .. } | OpSpec::DropReopen { .. } => Ok(Done::Skipped),
        }
    }

    fn max_term_seen(&self) -> Option<u64> {
        self.classes.m.get("__max_term").copied()
    }
    fn note_term(&mut self, t: u64) {
        let e = self.classes.m.entry("__max_term").or_insert(0);
        if t > *e {
            *e = t;
        }
    }

    /// Issue `flush` with a harness callback; returns the flush id.
    pub fn flush_call(&mut self, waited: bool) -> Result<u64, Fail> {
        let id = self.flushes.len() as u64;
        let st = self.rl().stat();
        let j_end = st.open_chunk.global_end;
        let mut chunks: Vec<(u64, u64)> = st.closed_chunks.iter().map(|c| (c.global_start, c.global_end)).collect();
        chunks.push((st.open_chunk.global_start, st.open_chunk.global_end));
        let n_records = self.model.records.len();
        self.flushes.push(FlushInfo { id, n_records, j_end, waited, chunks });
        trace::mark(Mark::FlushCall { flush: id, n_records, j_end });
        self.classes.hit("flush");
        let res = self.rl_mut().flush(Some(Cb::new(id)));
        if let Err(e) = res {
            return Err(Fail::new("flush-call-err", format!("flush() returned Err: {e}")));
        }
        Ok(id)
    }

    /// Run the worker until flush `id` is acknowledged (or it is idle / dead).
    pub fn wait_ack(&mut self, id: u64) -> Result<(), Fail> {
        if self.stepped {
            self.run_to_idle();
        } else {
            let start = std::time::Instant::now();
            loop {
                if trace::ack_of(id).is_some() {
                    break;
                }
                if !trace::thread_alive(self.worker()) {
                    break;
                }
                std::thread::yield_now();
                if start.elapsed() > WATCHDOG {
                    inconclusive("flush acknowledgement did not arrive");
                }
            }
            self.wait_stable();
        }
        Ok(())
    }

    /// flush + wait for the ack + worker idle; Err if the ack is missing or not Ok.
    pub fn flush_and_settle(&mut self) -> Result<(), Fail> {
        let id = self.flush_call(true)?;
        self.wait_ack(id)?;
        match trace::ack_of(id) {
            Some(Ok(())) => Ok(()),
            Some(Err(e)) => Err(Fail::new("flush-ack-err", format!("flush {id} was acknowledged with an error although no fault was injected: {e}"))),
            None => Err(Fail::new("flush-ack-missing", format!("flush {id} was never acknowledged although the worker is idle/dead and no fault was injected"))),
        }
    }

    pub fn clean_reopen(&mut self, cfg: &CfgSpec) -> Result<(), Fail> {
        self.flush_and_settle()?;
        self.drop_store(true);
        self.classes.hit("reopen");
        if *cfg != self.cfg {
            self.classes.hit("reopen_cfg_change");
        }
        self.open_store(cfg).map_err(|e| {
            let tail = trace::with_ctl(|c| {
                let n = c.trace.len();
                c.trace[n.saturating_sub(40)..]
                    .iter()
                    .map(|ev| match ev {
                        trace::Ev::Write { file, off, data, tid } => format!("write({},off {},{}B)@{}", c.names[*file as usize], off, data.len(), tid),
                        trace::Ev::Sync { file, ok, tid } => format!("sync({},{})@{}", c.names[*file as usize], ok, tid),
                        trace::Ev::Unlink { file, ok, tid } => format!("unlink({},{})@{}", c.names[*file as usize], ok, tid),
                        trace::Ev::Open { file, create, ok, tid } => format!("open({},create {},{})@{}", c.names[*file as usize], create, ok, tid),
                        trace::Ev::Truncate { file, len, tid } => format!("truncate({},{})@{}", c.names[*file as usize], len, tid),
                        trace::Ev::Ack { flush, ok, tid, .. } => format!("ack({},{})@{}", flush, ok, tid),
                        trace::Ev::AckDropped { flush } => format!("ack-dropped({})", flush),
                        trace::Ev::Mark(m) => format!("{:?}", m),
                        trace::Ev::WriteFail { file, tid } => format!("writefail({})@{}", c.names[*file as usize], tid),
                        trace::Ev::Pread { .. } => "pread".to_string(),
                        trace::Ev::Rename { from, to, ok, tid } => format!("rename({}->{},{})@{}", c.names[*from as usize], c.names[*to as usize], ok, tid),
                    })
                    .collect::<Vec<_>>()
                    .join(" | ")
            })
            .unwrap_or_default();
            Fail::new("clean-reopen-failed", format!("open after flush+ack+drop failed: {e}; last trace events: {tail}"))
        })?;
        Ok(())
    }

    // -----------------------------------------------------------------------------------
    // Oracles shared by several properties

    pub fn check_state(&self) -> Result<(), Fail> {
        let got = observed_state(self.rl());
        if &got != self.model.st() {
            return Err(Fail::new("state-mismatch", format!("log_state() = {:?}, reference model = {:?}", got, self.model.st())));
        }
        Ok(())
    }

    pub fn check_range(&self, from: u64, to: u64) -> Result<(), Fail> {
        let want = self.model.cur.range(from, to);
        match read_all(self.rl(), from, to) {
            Ok(got) => {
                if got != want {
                    return Err(Fail::new("read-mismatch", format!("read({from},{to}) = {} entries {:?}, reference model = {} entries {:?}", got.len(), brief(&got), want.len(), brief(&want))));
                }
                Ok(())
            }
            Err(e) => Err(Fail::new("read-error", format!("read({from},{to}) returned an error: {e}; reference model has {} entries there", want.len()))),
        }
    }

    pub fn check_full_read(&self) -> Result<(), Fail> {
        self.check_range(0, u64::MAX)
    }

    pub fn check_dump_data_iter(&self) -> Result<(), Fail> {
        let mut d = self.rl().dump_data();
        let mut got = vec![];
        for r in d.iter() {
            match r {
                Ok(x) => got.push(x),
                Err(e) => return Err(Fail::new("read-error", format!("dump_data().iter() returned an error: {e}"))),
            }
        }
        let want = self.model.cur.entries();
        if got != want {
            return Err(Fail::new("read-mismatch", format!("dump_data().iter() = {:?}, reference model = {:?}", brief(&got), brief(&want))));
        }
        Ok(())
    }

    // -----------------------------------------------------------------------------------
    // Rejected writes (C06)

    fn exec_reject(&mut self, kind: RejectKind, sel: u16) -> Result<Done, Fail> {
        let st = self.model.st().clone();
        if kind == RejectKind::BatchBadTail {
            let Some((t0, i)) = st.last else { return Ok(Done::Skipped) };
            let mut t = t0;
            if let Some(hi) = self.max_id_seen {
                if (t, i.saturating_add(1)) <= hi {
                    if self.avoid_low_reappend {
                        t = hi.0.saturating_add(1);
                        self.excluded += 1;
                    } else {
                        self.classes.hit("reappend_at_or_below_earlier_id");
                    }
                }
            }
            let k = 1 + (sel % 3) as u64;
            let mut entries = vec![];
            let mut recs = vec![];
            for j in 0..k {
                let id = (t, i + 1 + j);
                let p = payload(t, id.1, PaySel::Tiny(3), j);
                self.model.append_one(id, p.clone()).map_err(|e| Fail::new("harness-resolve", format!("batch head {id:?} not legal: {e:?}")))?;
                self.note_term(t);
                if Some(id) > self.max_id_seen {
                    self.max_id_seen = Some(id);
                }
                recs.push(Rec::Append(id, p.clone()));
                entries.push((id, p));
            }
            let lastgood = (t, i + k);
            let bad = match (sel >> 4) % 3 {
                0 => (t, lastgood.1 + 2),
                1 => lastgood,
                _ => {
                    if t > 0 {
                        (t - 1, lastgood.1 + 1)
                    } else {
                        (t, lastgood.1 + 3)
                    }
                }
            };
            if self.model.check_append(&bad).is_ok() {
                return Err(Fail::new("harness-resolve", format!("batch tail {bad:?} is legal")));
            }
            entries.push((bad, format!("REJECTED-TAIL-{}", sel)));
            self.classes.hit("reject");
            self.classes.hit("reject_batch_tail");
            let what = format!("append({:?})", entries.iter().map(|e| e.0).collect::<Vec<_>>());
            let res = self.rl_mut().append(entries);
            // the accepted head of the batch is journalled
            let base = self.model.records.len() - recs.len();
            for (j, r) in recs.iter().enumerate() {
                let stj = self.model.prefix[base + j + 1].st.clone();
                let n = base + j + 1;
                let cfg = self.cfg.clone();
                if let Some(l) = self.layout.as_mut() {
                    let before = l.chunks.len();
                    l.on_record(r, &cfg, &stj, n);
                    if l.chunks.len() > before {
                        self.classes.hit("rotation");
                    }
                }
            }
            return match res {
                Err(e) => Ok(Done::Rejected { kind, err: format!("{what}: {e}") }),
                Ok(_) => Err(Fail::new("reject-accepted/BatchBadTail", format!("{what} ends with an entry the specification refuses (state {:?}) but returned Ok", st))),
            };
        }
        enum Call {
            Vote((u64, u64)),
            Append(LogId, String),
            Commit(LogId),
            Truncate(u64),
        }
        let call = match kind {
            RejectKind::VoteLowerTerm => match st.vote {
                Some((t, n)) if t > 0 => Call::Vote((t - 1, n + (sel % 3) as u64)),
                _ => return Ok(Done::Skipped),
            },
            RejectKind::VoteLowerNode => match st.vote {
                Some((t, n)) if n > 0 => Call::Vote((t, n - 1)),
                _ => return Ok(Done::Skipped),
            },
            RejectKind::AppendSame => match st.last {
                Some(id) => Call::Append(id, format!("REJECTED-{}", sel)),
                None => return Ok(Done::Skipped),
            },
            RejectKind::AppendLowerTerm => match st.last {
                Some((t, i)) if t > 0 => Call::Append((t - 1, i + 1), format!("REJECTED-{}", sel)),
                _ => return Ok(Done::Skipped),
            },
            RejectKind::AppendLowerIndex => match st.last {
                Some((t, i)) if i > 0 => {
                    let back = 1 + pick(sel, (i as usize).min(3)) as u64;
                    Call::Append((t, i - back), format!("REJECTED-{}", sel))
                }
                _ => return Ok(Done::Skipped),
            },
            RejectKind::AppendGap => match st.last {
                Some((t, i)) => Call::Append((t + (sel % 2) as u64, i + 2 + pick(sel, 3) as u64), format!("REJECTED-{}", sel)),
                None => return Ok(Done::Skipped),
            },
            RejectKind::CommitLower => match st.committed {
                Some((t, i)) if i > 0 => Call::Commit((t, i - 1)),
                Some((t, 0)) if t > 0 => Call::Commit((t - 1, 0)),
                _ => return Ok(Done::Skipped),
            },
            RejectKind::TruncateBeyond => Call::Truncate(next_index(st.last.as_ref()) + 1 + pick(sel, 3) as u64),
            RejectKind::TruncateBelowPurged => match st.purged {
                Some((_, i)) if i >= 1 => Call::Truncate(1 + pick(sel, i as usize) as u64),
                _ => return Ok(Done::Skipped),
            },
            RejectKind::BatchBadTail => unreachable!(),
        };
        // the reference model must reject it
        let model_rejects = match &call {
            Call::Vote(v) => self.model.check_vote(v).is_err(),
            Call::Append(id, _) => self.model.check_append(id).is_err(),
            Call::Commit(id) => self.model.check_commit(id).is_err(),
            Call::Truncate(i) => self.model.check_truncate(*i).is_err(),
        };
        if !model_rejects {
            return Ok(Done::Skipped);
        }
        self.classes.hit("reject");
        let (res, what) = match call {
            Call::Vote(v) => (self.rl_mut().save_vote(v), format!("save_vote({v:?})")),
            Call::Append(id, p) => (self.rl_mut().append([(id, p.clone())]), format!("append(({id:?},{p:?}))")),
            Call::Commit(id) => (self.rl_mut().commit(id), format!("commit({id:?})")),
            Call::Truncate(i) => (self.rl_mut().truncate(i), format!("truncate({i})")),
        };
        match res {
            Err(e) => {
                self.last_err = Some(e.to_string());
                Ok(Done::Rejected { kind, err: format!("{what}: {e}") })
            }
            Ok(_) => Err(Fail::new(format!("reject-accepted/{kind:?}"), format!("{what} must be refused (state {:?}) but returned Ok", st))),
        }
    }

    // -----------------------------------------------------------------------------------
    // Argument probes (C16)

    pub fn arg(&self, a: ArgSel) -> u64 {
        let st = self.model.st();
        let p = st.purged.map(|x| x.1).unwrap_or(0);
        let l = st.last.map(|x| x.1).unwrap_or(0);
        match a {
            ArgSel::Zero => 0,
            ArgSel::One => 1,
            ArgSel::Max => u64::MAX,
            ArgSel::MaxM1 => u64::MAX - 1,
            ArgSel::PurgedM1 => p.wrapping_sub(1),
            ArgSel::Purged => p,
            ArgSel::PurgedP1 => p.wrapping_add(1),
            ArgSel::LastM2 => l.wrapping_sub(2),
            ArgSel::LastM1 => l.wrapping_sub(1),
            ArgSel::Last => l,
            ArgSel::LastP1 => l.wrapping_add(1),
            ArgSel::LastP2 => l.wrapping_add(2),
            ArgSel::Rand(x) => (x >> 26) as u64,
        }
    }

    fn exec_probe(&mut self, p: &ProbeSpec) -> Result<Done, Fail> {
        self.classes.hit("probe");
        self.model_exact = false;
        let desc;
        let outcome: Result<bool, String>;
        macro_rules! guarded {
            ($e:expr) => {{
                let r = catch_unwind(AssertUnwindSafe(|| $e));
                match r {
                    Ok(Ok(_)) => Ok(true),
                    Ok(Err(_)) => Ok(false),
                    Err(p) => Err(panic_msg(&p)),
                }
            }};
        }
        match p {
            ProbeSpec::Truncate(a) => {
                let i = self.arg(*a);
                desc = format!("truncate({i}) [{a:?}]");
                outcome = guarded!(self.rl_mut().truncate(i));
            }
            ProbeSpec::Read(a, b) => {
                let (x, y) = (self.arg(*a), self.arg(*b));
                desc = format!("read({x},{y}) [{a:?},{b:?}]");
                let r = catch_unwind(AssertUnwindSafe(|| {
                    let mut n = 0usize;
                    for it in self.rl().read(x, y) {
                        let _ = it;
                        n += 1;
                        if n > 100_000 {
                            break;
                        }
                    }
                    n
                }));
                outcome = match r {
                    Ok(_) => Ok(true),
                    Err(p) => Err(panic_msg(&p)),
                };
            }
            ProbeSpec::Purge(t, i) => {
                let id = (self.arg(*t), self.arg(*i));
                desc = format!("purge({id:?}) [{t:?},{i:?}]");
                outcome = guarded!(self.rl_mut().purge(id));
            }
            ProbeSpec::Commit(t, i) => {
                let id = (self.arg(*t), self.arg(*i));
                desc = format!("commit({id:?}) [{t:?},{i:?}]");
                outcome = guarded!(self.rl_mut().commit(id));
            }
            ProbeSpec::Append(v) => {
                let ents: Vec<(LogId, String)> = v.iter().map(|(t, i)| ((self.arg(*t), self.arg(*i)), format!("probe{}", self.op_no))).collect();
                desc = format!("append({:?}) [{v:?}]", ents.iter().map(|e| e.0).collect::<Vec<_>>());
                outcome = guarded!(self.rl_mut().append(ents.clone()));
            }
            ProbeSpec::Vote(t, n) => {
                let v = (self.arg(*t), self.arg(*n));
                desc = format!("save_vote({v:?}) [{t:?},{n:?}]");
                outcome = guarded!(self.rl_mut().save_vote(v));
            }
            ProbeSpec::UserData(l) => {
                let ud = l.map(|l| "z".repeat(l as usize));
                desc = format!("save_user_data(len {:?})", l);
                outcome = guarded!(self.rl_mut().save_user_data(ud.clone()));
            }
            ProbeSpec::UpdateState { vote, last, committed, purged, ud } => {
                let f = |o: &Option<(ArgSel, ArgSel)>| o.map(|(a, b)| (self.arg(a), self.arg(b)));
                let st = MState { vote: f(vote), last: f(last), committed: f(committed), purged: f(purged), user_data: ud.map(|n| "s".repeat(n as usize)) };
                desc = format!("update_state({st:?})");
                // Build the crate's state value through its public decoder.
                let mut b = vec![];
                refcodec::encode_state_body(&mut b, &st);
                let r = catch_unwind(AssertUnwindSafe(|| {
                    let mut tmpl = self.rl().log_state().clone();
                    tmpl = raft_log::codeq::Decode::decode(&b[..]).expect("reference-encoded state decodes");
                    self.rl_mut().update_state(tmpl)
                }));
                outcome = match r {
                    Ok(Ok(_)) => Ok(true),
                    Ok(Err(_)) => Ok(false),
                    Err(p) => Err(panic_msg(&p)),
                };
            }
        }
        match outcome {
            Ok(accepted) => Ok(Done::Probe { panicked: None, accepted, desc }),
            Err(msg) => Ok(Done::Probe { panicked: Some(msg), accepted: false, desc }),
        }
    }

    /// Re-synchronise the (now best-effort) model with what the store reports.
    pub fn resync_model(&mut self) -> Result<(), String> {
        let r = catch_unwind(AssertUnwindSafe(|| observe(self.rl())));
        match r {
            Ok(Ok(s)) => {
                self.model = Model::from_snapshot(s);
                self.layout = None;
                Ok(())
            }
            Ok(Err(e)) => Err(e),
            Err(p) => Err(format!("panic: {}", panic_msg(&p))),
        }
    }
}

pub fn brief(v: &[(LogId, String)]) -> Vec<(LogId, String)> {
    v.iter()
        .map(|(id, p)| {
            let mut s: String = p.chars().take(16).collect();
            if p.len() > 16 {
                s.push_str(&format!("..({})", p.len()));
            }
            (*id, s)
        })
        .collect()
}

pub fn panic_msg(p: &Box<dyn std::any::Any + Send>) -> String {
    if let Some(s) = p.downcast_ref::<&str>() {
        s.to_string()
    } else if let Some(s) = p.downcast_ref::<String>() {
        s.clone()
    } else {
        "<non-string panic payload>".to_string()
    }
}
