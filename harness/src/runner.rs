//! Generic machinery: proptest runner per shard, shard fan-out, known findings, evidence.

use std::cell::RefCell;
use std::collections::BTreeMap;
use std::collections::BTreeSet;
use std::io::Write;
use std::path::Path;
use std::time::Instant;

use proptest::strategy::BoxedStrategy;
use proptest::test_runner::Config;
use proptest::test_runner::RngAlgorithm;
use proptest::test_runner::TestCaseError;
use proptest::test_runner::TestError;
use proptest::test_runner::TestRng;
use proptest::test_runner::TestRunner;
use serde::Deserialize;
use serde::Serialize;
use serde_json::json;
use serde_json::Value;

use crate::driver::Fail;
use crate::ops::mix;
use crate::ops::Case;

/// Home of the verification tree: `/verif`, or the directory of the `check` script that
/// started this run (`RLV_HOME`; a `vp run` snapshot must not write into `/verif`).
pub fn verif_home() -> String {
    std::env::var("RLV_HOME").ok().filter(|s| !s.is_empty()).unwrap_or_else(|| "/verif".to_string())
}

#[derive(Debug, Clone, Copy, PartialEq, Eq)]
pub enum Tier {
    Quick,
    Thorough,
}

impl Tier {
    pub fn name(&self) -> &'static str {
        match self {
            Tier::Quick => "quick",
            Tier::Thorough => "thorough",
        }
    }
    pub fn parse(s: &str) -> Tier {
        if s == "thorough" {
            Tier::Thorough
        } else {
            Tier::Quick
        }
    }
}

#[derive(Debug, Clone, Serialize, Deserialize)]
pub struct KnownEntry {
    pub property: String,
    pub key: String,
    /// "known" or "fixed"
    pub status: String,
    pub what: String,
    #[serde(default)]
    pub commit: Option<String>,
    /// A case (same JSON as a replay file's `case`) on which the finding shows.
    #[serde(default)]
    pub example: Option<Value>,
}

#[derive(Debug, Clone, Default)]
pub struct Known {
    pub entries: Vec<KnownEntry>,
}

impl Known {
    pub fn load() -> Known {
        let p = format!("{}/known_findings.json", verif_home());
        match std::fs::read_to_string(&p) {
            Ok(s) => {
                let v: Value = serde_json::from_str(&s).expect("known_findings.json parses");
                let entries: Vec<KnownEntry> = serde_json::from_value(v["findings"].clone()).expect("known_findings.json: findings[]");
                Known { entries }
            }
            Err(_) => Known::default(),
        }
    }
    pub fn for_prop(&self, prop: &str) -> Vec<&KnownEntry> {
        self.entries.iter().filter(|e| e.property == prop && e.status == "known").collect()
    }
}

/// What the per-case code reports back.
#[derive(Debug, Clone, Default)]
pub struct CaseInfo {
    pub nontrivial: bool,
    /// Evaluations inside this case (ops executed, images opened, mutations tried ...).
    pub evals: u64,
    pub labels: BTreeMap<String, u64>,
    /// Failures that belong to a listed known-finding class: (key, message).
    pub known_hits: Vec<(String, String)>,
    /// Inputs skipped because they fall into a known class.
    pub excluded: u64,
    /// Distinct non-trivial sub-inputs (hashes), for checks that enumerate inside a case.
    pub nontrivial_hashes: Vec<u64>,
    pub sample: Option<Value>,
}

impl CaseInfo {
    pub fn label(&mut self, k: impl ToString) {
        *self.labels.entry(k.to_string()).or_insert(0) += 1;
    }
    pub fn label_n(&mut self, k: impl ToString, n: u64) {
        if n > 0 {
            *self.labels.entry(k.to_string()).or_insert(0) += n;
        }
    }
}

/// Filter applied to failures: is this key a listed known finding (and not the one a
/// strict replay wants to see)?
#[derive(Debug, Clone, Default)]
pub struct KnownFilter {
    pub keys: BTreeSet<String>,
}

impl KnownFilter {
    pub fn is_known(&self, key: &str) -> bool {
        self.keys.contains(key)
    }
}

pub struct Ctx {
    pub tier: Tier,
    pub known: KnownFilter,
    pub seed: u64,
}

pub trait Prop: Sync {
    fn id(&self) -> &'static str;
    fn level(&self) -> &'static str;
    fn rule(&self) -> String;
    fn assumptions(&self) -> Vec<String>;
    /// Generated cases per shard.
    fn cases(&self, tier: Tier) -> u32;
    fn strategy(&self, tier: Tier) -> BoxedStrategy<Case>;
    /// Hand-written / repository-derived cases run before the generated ones (shard 0).
    fn fixed_cases(&self) -> Vec<Case> {
        vec![crate::ops::sample_case()]
    }
    fn run_case(&self, case: &Case, ctx: &Ctx) -> Result<CaseInfo, Fail>;
    /// Extra work that is not case-based (e.g. a libFuzzer campaign); returns labels.
    fn extra(&self, _ctx: &Ctx, _shard: usize, _rep: &mut ShardReport) {}
}

#[derive(Debug, Clone, Default, Serialize, Deserialize)]
pub struct Violation {
    pub key: String,
    pub msg: String,
    pub case: Value,
    pub origin: String,
}

#[derive(Debug, Clone, Default, Serialize, Deserialize)]
pub struct ShardReport {
    pub cases: u64,
    pub evaluations: u64,
    pub nontrivial_hashes: Vec<u64>,
    pub labels: BTreeMap<String, u64>,
    pub known_hits: BTreeMap<String, (u64, String)>,
    pub excluded: u64,
    pub samples: Vec<Value>,
    pub violations: Vec<Violation>,
    pub notes: Vec<String>,
}

impl ShardReport {
    fn absorb(&mut self, case: &Case, info: CaseInfo) {
        self.cases += 1;
        self.evaluations += info.evals.max(1);
        if info.nontrivial_hashes.is_empty() {
            if info.nontrivial {
                self.nontrivial_hashes.push(case.hash64());
            }
        } else {
            self.nontrivial_hashes.extend(info.nontrivial_hashes.iter().copied());
        }
        for (k, v) in info.labels {
            *self.labels.entry(k).or_insert(0) += v;
        }
        for (k, m) in info.known_hits {
            let e = self.known_hits.entry(k).or_insert((0, m));
            e.0 += 1;
        }
        self.excluded += info.excluded;
        if info.nontrivial && self.samples.len() < 2 {
            if let Some(s) = info.sample {
                self.samples.push(s);
            } else {
                self.samples.push(serde_json::to_value(case).unwrap());
            }
        }
    }
}

pub fn corpus_cases(id: &str) -> Vec<(String, Case)> {
    let mut v = vec![];
    let d = format!("{}/corpus/{}", verif_home(), id);
    if let Ok(rd) = std::fs::read_dir(&d) {
        let mut names: Vec<_> = rd.flatten().map(|e| e.path()).filter(|p| p.extension().map(|e| e == "json").unwrap_or(false)).collect();
        names.sort();
        for p in names {
            if let Ok(s) = std::fs::read_to_string(&p) {
                if let Ok(val) = serde_json::from_str::<Value>(&s) {
                    let cv = if val.get("case").is_some() { val["case"].clone() } else { val };
                    if let Ok(c) = serde_json::from_value::<Case>(cv) {
                        v.push((p.display().to_string(), c));
                    }
                }
            }
        }
    }
    v
}

pub fn run_shard(prop: &dyn Prop, tier: Tier, seed: u64, shard: usize, _nshards: usize) -> ShardReport {
    let known_all = Known::load();
    let known = KnownFilter { keys: known_all.for_prop(prop.id()).iter().map(|e| e.key.clone()).collect() };
    let ctx = Ctx { tier, known, seed };
    let mut rep = ShardReport::default();

    // (A) known-finding probes and fixed cases: shard 0 only
    if shard == 0 {
        for e in known_all.for_prop(prop.id()) {
            if let Some(ex) = &e.example {
                match serde_json::from_value::<Case>(ex.clone()) {
                    Ok(case) => {
                        let mut strict = ctx.known.clone();
                        strict.keys.remove(&e.key);
                        let sctx = Ctx { tier, known: strict, seed };
                        match prop.run_case(&case, &sctx) {
                            Err(f) if f.key == e.key => {
                                let ent = rep.known_hits.entry(e.key.clone()).or_insert((0, f.msg.clone()));
                                ent.0 += 1;
                                rep.notes.push(format!("known-probe {} reproduced", e.key));
                            }
                            Err(f) => {
                                rep.violations.push(Violation { key: f.key, msg: f.msg, case: ex.clone(), origin: format!("known-probe {}", e.key) });
                            }
                            Ok(_) => rep.notes.push(format!("known-probe {} no longer fails", e.key)),
                        }
                    }
                    Err(err) => rep.notes.push(format!("known example for {} does not parse: {}", e.key, err)),
                }
            }
        }
        let mut fixed: Vec<(String, Case)> = prop.fixed_cases().into_iter().map(|c| ("fixed".to_string(), c)).collect();
        fixed.extend(corpus_cases(prop.id()));
        for (origin, case) in fixed {
            match prop.run_case(&case, &ctx) {
                Ok(info) => rep.absorb(&case, info),
                Err(f) => rep.violations.push(Violation { key: f.key, msg: f.msg, case: serde_json::to_value(&case).unwrap(), origin }),
            }
        }
    }

    // (B) generated search
    let cases = prop.cases(tier);
    if cases > 0 && rep.violations.is_empty() {
        let mut seed_bytes = [0u8; 32];
        let mut h = 0u64;
        for b in prop.id().bytes() {
            h = mix(h, b as u64);
        }
        for i in 0..4 {
            let w = mix(mix(seed, shard as u64 + 1), mix(h, i as u64));
            seed_bytes[i * 8..i * 8 + 8].copy_from_slice(&w.to_le_bytes());
        }
        let cfg = Config { cases, failure_persistence: None, max_shrink_iters: 1500, max_global_rejects: 1_000_000, ..Config::default() };
        let mut runner = TestRunner::new_with_rng(cfg, TestRng::from_seed(RngAlgorithm::ChaCha, &seed_bytes));
        let strategy = prop.strategy(tier);
        let state = RefCell::new((std::mem::take(&mut rep), false, None::<Fail>));
        let result = runner.run(&strategy, |case| {
            let failed_before = state.borrow().1;
            let t0 = Instant::now();
            let r = prop.run_case(&case, &ctx);
            if t0.elapsed().as_secs_f64() > 2.0 && std::env::var_os("RLV_SLOW").is_some() {
                eprintln!("SLOW {:.1}s: {}", t0.elapsed().as_secs_f64(), serde_json::to_string(&case).unwrap());
            }
            match r {
                Ok(info) => {
                    if !failed_before {
                        state.borrow_mut().0.absorb(&case, info);
                    }
                    Ok(())
                }
                Err(f) => {
                    let mut s = state.borrow_mut();
                    s.1 = true;
                    s.2 = Some(f.clone());
                    Err(TestCaseError::fail(format!("{}: {}", f.key, f.msg)))
                }
            }
        });
        let (r, _, last_fail) = state.into_inner();
        rep = r;
        match result {
            Ok(()) => {}
            Err(TestError::Fail(_reason, case)) => {
                // re-run the minimal case to get its own key/message
                let f = match prop.run_case(&case, &ctx) {
                    Err(f) => f,
                    Ok(_) => match last_fail {
                        // timing dependent (real threads / processes racing): keep what was seen
                        Some(mut f) => {
                            f.msg = format!("{} [seen during the search; the shrunk case passed when re-run once more: timing dependent]", f.msg);
                            f
                        }
                        None => Fail::new("flaky", "minimal case passed when re-run"),
                    },
                };
                rep.violations.push(Violation { key: f.key, msg: f.msg, case: serde_json::to_value(&case).unwrap(), origin: format!("generated shard {}", shard) });
            }
            Err(TestError::Abort(reason)) => {
                rep.notes.push(format!("proptest aborted: {}", reason));
            }
        }
    }
    prop.extra(&ctx, shard, &mut rep);
    rep
}

pub fn replay_path(id: &str, v: &Violation) -> String {
    let d = format!("{}/replays/{}", verif_home(), id);
    let _ = std::fs::create_dir_all(&d);
    let s = serde_json::to_string(&v.case).unwrap();
    let mut h = 0u64;
    for b in s.bytes() {
        h = mix(h, b as u64);
    }
    format!("{}/{:016x}.json", d, h)
}

/// Parent: fan out shards as child processes, merge, write evidence, print the verdict.
pub fn run_check(prop: &dyn Prop, tier: Tier, seed: u64, nshards: usize) -> i32 {
    let start = Instant::now();
    let exe = std::env::current_exe().expect("current_exe");
    let tmp = format!("/dev/shm/rlv-{}", std::process::id());
    let _ = std::fs::create_dir_all(&tmp);
    let mut children = vec![];
    for s in 0..nshards {
        let out = format!("{}/shard-{}-{}.json", tmp, prop.id(), s);
        let child = std::process::Command::new(&exe)
            .args(["shard", prop.id(), tier.name(), &seed.to_string(), &s.to_string(), &nshards.to_string(), &out])
            .stdout(std::process::Stdio::inherit())
            .stderr(std::process::Stdio::inherit())
            .spawn()
            .expect("spawn shard");
        children.push((s, out, child));
    }
    let mut merged = ShardReport::default();
    let mut hashes: BTreeSet<u64> = BTreeSet::new();
    let mut inconclusive = vec![];
    for (s, out, mut child) in children {
        let st = child.wait().expect("wait shard");
        let code = st.code().unwrap_or(-1);
        match std::fs::read_to_string(&out).ok().and_then(|t| serde_json::from_str::<ShardReport>(&t).ok()) {
            Some(r) if code == 0 => {
                merged.cases += r.cases;
                merged.evaluations += r.evaluations;
                hashes.extend(r.nontrivial_hashes.iter().copied());
                for (k, v) in r.labels {
                    *merged.labels.entry(k).or_insert(0) += v;
                }
                for (k, (n, m)) in r.known_hits {
                    let e = merged.known_hits.entry(k).or_insert((0, m));
                    e.0 += n;
                }
                merged.excluded += r.excluded;
                for smp in r.samples {
                    if merged.samples.len() < 4 {
                        merged.samples.push(smp);
                    }
                }
                merged.violations.extend(r.violations);
                merged.notes.extend(r.notes);
            }
            _ => inconclusive.push(format!("shard {} exited with status {}", s, code)),
        }
        let _ = std::fs::remove_file(&out);
    }
    let _ = std::fs::remove_dir_all(&tmp);

    let known_all = Known::load();
    let mut exit = 0;
    // violations: de-duplicate by key, keep the smallest case
    let mut by_key: BTreeMap<String, Violation> = BTreeMap::new();
    for v in &merged.violations {
        let sz = serde_json::to_string(&v.case).unwrap().len();
        match by_key.get(&v.key) {
            Some(o) if serde_json::to_string(&o.case).unwrap().len() <= sz => {}
            _ => {
                by_key.insert(v.key.clone(), v.clone());
            }
        }
    }
    let mut out = std::io::stdout();
    for e in known_all.for_prop(prop.id()) {
        if let Some((n, _m)) = merged.known_hits.get(&e.key) {
            let _ = writeln!(out, "KNOWN-FINDING: property={} key={} seen={} {}", prop.id(), e.key, n, e.what);
        }
    }
    for (key, v) in &by_key {
        let path = replay_path(prop.id(), v);
        let body = json!({"property": prop.id(), "key": key, "message": v.msg, "origin": v.origin, "tier": tier.name(), "seed": seed, "case": v.case});
        let _ = std::fs::write(&path, serde_json::to_string_pretty(&body).unwrap());
        let _ = writeln!(out, "VIOLATION property={} replay={}", prop.id(), path);
        let _ = writeln!(out, "  key={} {}", key, v.msg);
        exit = 1;
    }
    let wall = start.elapsed().as_secs_f64();
    let known_seen: BTreeMap<String, u64> = merged.known_hits.iter().map(|(k, v)| (k.clone(), v.0)).collect();
    let ev = json!({
        "property_id": prop.id(),
        "tier": tier.name(),
        "seed": seed,
        "level": prop.level(),
        "coverage": {
            "evaluations": merged.evaluations,
            "cases": merged.cases,
            "distinct_nontrivial": hashes.len(),
            "rule": prop.rule(),
            "samples": merged.samples,
            "classes": merged.labels,
            "known_findings_seen": known_seen,
            "excluded_known_inputs": merged.excluded,
            "shards": nshards,
            "notes": merged.notes,
            "inconclusive": inconclusive,
            "exhaustive": false
        },
        "assumptions": prop.assumptions(),
        "wall_s": wall,
        "violations": by_key.len()
    });
    let evdir = format!("{}/evidence", verif_home());
    let _ = std::fs::create_dir_all(&evdir);
    let evp = format!("{}/{}.json", evdir, prop.id());
    let tmpf = format!("{}.tmp", evp);
    std::fs::write(&tmpf, serde_json::to_string_pretty(&ev).unwrap()).expect("write evidence");
    std::fs::rename(&tmpf, &evp).expect("rename evidence");
    let _ = writeln!(
        out,
        "{} {}: cases={} evaluations={} distinct_nontrivial={} known_seen={:?} excluded={} violations={} wall={:.1}s",
        prop.id(),
        tier.name(),
        merged.cases,
        merged.evaluations,
        hashes.len(),
        known_seen,
        merged.excluded,
        by_key.len(),
        wall
    );
    if exit == 0 && !inconclusive.is_empty() {
        let _ = writeln!(out, "INCONCLUSIVE: {:?}", inconclusive);
        return 2;
    }
    if exit == 0 && hashes.len() < 2 {
        let _ = writeln!(out, "INCONCLUSIVE: fewer than 2 non-trivial cases were generated");
        return 2;
    }
    exit
}

pub fn replay(prop: &dyn Prop, path: &str, strict_all: bool) -> i32 {
    let s = std::fs::read_to_string(Path::new(path)).expect("read replay file");
    let v: Value = serde_json::from_str(&s).expect("replay file parses");
    let cv = if v.get("case").is_some() { v["case"].clone() } else { v };
    let case: Case = serde_json::from_value(cv).expect("replay case parses");
    let known_all = Known::load();
    let known = if strict_all { KnownFilter::default() } else { KnownFilter { keys: known_all.for_prop(prop.id()).iter().map(|e| e.key.clone()).collect() } };
    let ctx = Ctx { tier: Tier::Quick, known, seed: 0 };
    match prop.run_case(&case, &ctx) {
        Ok(info) => {
            println!("replay: property held; nontrivial={} labels={:?} known_hits={:?}", info.nontrivial, info.labels, info.known_hits);
            0
        }
        Err(f) => {
            println!("VIOLATION property={} replay={}", prop.id(), path);
            println!("  key={} {}", f.key, f.msg);
            1
        }
    }
}
