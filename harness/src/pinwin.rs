//! The exact input class of the known C07 finding, computed from the reference model and the
//! I/O trace (never from what the store reports).
//!
//! Known finding: the eviction boundary is a *log id*. The correct boundary is always the last
//! log id of the chunk preceding the newest file the flush worker has started to sync (`open()`
//! installs the same value for the newest file it finds). An entry whose log id is at or below
//! that boundary may be evicted although it is not safely on disk — it sits in the open chunk
//! (read fails "Chunk not found ... open cache-miss read") or in a closed chunk whose tail the
//! worker has not written yet ("failed to fill whole buffer"). With log ids that only grow this
//! cannot happen; after a truncation followed by a re-append at or below an earlier id it can.
//!
//! `Window::known_window()` is true exactly while such an entry exists: some live entry `e`
//! with `id(e) <= E` that is not safely on disk, where `E` is the boundary the *unchanged
//! design* has at this point (computed here from the expected journal layout and the worker's
//! traced sync calls). A read failure while the window is closed cannot be the known finding.
//! While the worker is parked between the per-file syncs of one flush the boundary may or may
//! not have moved yet; both values are admitted there (over-approximation = never a false alarm).

use std::collections::BTreeMap;

use crate::driver::Layout;
use crate::driver::Run;
use crate::model::Rec;
use crate::refcodec;
use crate::trace;
use crate::trace::Ev;
use crate::trace::Parked;
use crate::types::LogId;

#[derive(Debug, Default)]
pub struct Window {
    scanned: usize,
    /// chunk start offset -> bytes ever written to that file
    written: BTreeMap<u64, u64>,
    /// boundary of the unchanged design at the last point where it was unambiguous
    exact: Option<LogId>,
    /// layout index of the file of the most recent worker `Sync` event not yet followed by
    /// another kind of worker event
    pending_sync: Option<usize>,
    /// instance number the state belongs to
    inst: Option<u32>,
    /// (layout index, prev_last_log_id) of the file the current instance started with
    first_file: Option<(usize, Option<LogId>)>,
}

fn layout_idx(layout: &Layout, start: u64) -> Option<usize> {
    layout.chunks.iter().position(|c| c.start == start)
}

impl Window {
    fn prev_of(&self, layout: &Layout, idx: usize) -> Option<LogId> {
        if let Some((i, p)) = self.first_file {
            if i == idx {
                return p;
            }
        }
        if idx == 0 {
            return None;
        }
        layout.chunks[idx - 1].closed_last.flatten()
    }

    /// Bring the state up to date with the trace; returns the admissible boundaries.
    fn admissible(&mut self, run: &Run) -> Option<Vec<Option<LogId>>> {
        let layout = run.layout.as_ref()?;
        let inst = run.inst.as_ref()?;
        if self.inst != Some(inst.no) {
            // a new instance: open() installed the boundary for the newest file it found
            self.inst = Some(inst.no);
            let st = inst.rl.stat();
            let newest = layout_idx(layout, st.open_chunk.chunk_id.0)?;
            let prev = if st.closed_chunks.is_empty() || newest == 0 { None } else { layout.chunks[newest - 1].closed_last.flatten() };
            self.first_file = Some((newest, prev));
            self.exact = prev;
            self.pending_sync = None;
        }
        let worker = inst.worker;
        let mut syncs: Vec<Option<u64>> = vec![];
        trace::with_ctl(|c| {
            for ev in &c.trace[self.scanned.min(c.trace.len())..] {
                match ev {
                    Ev::Write { file, off, data, tid } => {
                        if let Some(start) = refcodec::parse_chunk_file_name(&c.names[*file as usize]) {
                            let e = self.written.entry(start).or_insert(0);
                            *e = (*e).max(off + data.len() as u64);
                        }
                        if *tid == worker {
                            syncs.push(None);
                        }
                    }
                    Ev::Sync { file, tid, .. } if *tid == worker => {
                        syncs.push(refcodec::parse_chunk_file_name(&c.names[*file as usize]));
                    }
                    Ev::Ack { tid, .. } | Ev::Unlink { tid, .. } | Ev::WriteFail { tid, .. } if *tid == worker => syncs.push(None),
                    _ => {}
                }
            }
            self.scanned = c.trace.len();
        });
        for s in syncs {
            match s {
                Some(start) => self.pending_sync = layout_idx(layout, start),
                None => {
                    // the sync group is over: its last file was the newest one
                    if let Some(k) = self.pending_sync.take() {
                        self.exact = self.prev_of(layout, k);
                    }
                }
            }
        }
        let parked_sync: Option<usize> = match trace::parked(worker) {
            Some(Parked::Sync(f)) => trace::with_ctl(|c| refcodec::parse_chunk_file_name(&c.names[f as usize])).flatten().and_then(|s| layout_idx(layout, s)),
            _ => None,
        };
        let mut adm = vec![];
        match parked_sync {
            Some(k2) => {
                // between the syncs of one flush: the boundary may already be the one of `k2`
                adm.push(self.exact);
                adm.push(self.prev_of(layout, k2));
            }
            None => {
                if let Some(k) = self.pending_sync.take() {
                    self.exact = self.prev_of(layout, k);
                }
                adm.push(self.exact);
            }
        }
        Some(adm)
    }

    /// Live entries that are not safely on disk: (log id, why).
    fn unsafe_entries(&self, run: &Run) -> Vec<(LogId, &'static str)> {
        let Some(layout) = run.layout.as_ref() else { return vec![] };
        let mut out = vec![];
        let mut seen: BTreeMap<u64, ()> = BTreeMap::new();
        let last = layout.chunks.len() - 1;
        for (j, ch) in layout.chunks.iter().enumerate().rev() {
            // record i of the chunk (i >= 1) is model.records[first_record + i - 1]
            let mut end = ch.size;
            for i in (1..ch.recs.len()).rev() {
                let rec_end = end;
                end -= ch.recs[i].len() as u64;
                let Some(Rec::Append(id, _)) = run.model.records.get(ch.first_record + i - 1) else { continue };
                if seen.contains_key(&id.1) {
                    continue;
                }
                // the newest journalled append of an index decides; it is live iff the model
                // still holds exactly this id there
                seen.insert(id.1, ());
                match run.model.cur.log.get(&id.1) {
                    Some((cur, _)) if cur == id => {}
                    _ => continue,
                }
                if j == last {
                    out.push((*id, "in the open chunk"));
                } else if self.written.get(&ch.start).copied().unwrap_or(0) < rec_end {
                    out.push((*id, "in a closed chunk whose tail is not written yet"));
                }
            }
        }
        out
    }

    /// Follow the trace (cheap, incremental). Must be called at every stable point — in
    /// particular right after an instance was opened, before the next caller op.
    pub fn track(&mut self, run: &Run) {
        let _ = self.admissible(run);
    }

    /// Is the known window open right now? Returns the witness if so.
    pub fn known_window(&mut self, run: &Run) -> Option<String> {
        let adm = self.admissible(run)?;
        let uns = self.unsafe_entries(run);
        for e in adm.iter().flatten() {
            if let Some((id, why)) = uns.iter().find(|(id, _)| id <= e) {
                return Some(format!("live entry {:?} is {} and at or below the boundary {:?} of the unchanged design", id, why, e));
            }
        }
        None
    }
}
