//! Runs a cargo-fuzz (libFuzzer) campaign of a target in /verif/fuzz for a fixed number of
//! runs and turns crash artifacts into violations.

use crate::driver::Fail;
use crate::ops::Case;
use crate::runner::ShardReport;

pub fn campaign(target: &str, seed: u64, runs: u64, max_len: u32, seeds: &[std::path::PathBuf], rep: &mut ShardReport, classify: &dyn Fn(&[u8]) -> Fail) {
    let work = format!("/dev/shm/rlv-{}/fuzz-{}", std::process::id(), target);
    let corpus = format!("{}/corpus", work);
    let artifacts = format!("{}/artifacts/", work);
    let _ = std::fs::create_dir_all(&corpus);
    let _ = std::fs::create_dir_all(&artifacts);
    for p in seeds {
        if let Some(n) = p.file_name() {
            let _ = std::fs::copy(p, format!("{}/{}", corpus, n.to_string_lossy()));
        }
    }
    let home = crate::runner::verif_home();
    let fuzz_dir = format!("{}/fuzz", home);
    let fuzz_target_dir = format!("{}/fuzz/target", home);
    let out = std::process::Command::new("cargo")
        .args(["+nightly", "fuzz", "run", "--fuzz-dir", &fuzz_dir, "--target-dir", &fuzz_target_dir, "--sanitizer", "none", target, &corpus, "--"])
        .arg(format!("-runs={}", runs))
        .arg(format!("-seed={}", (seed % 1_000_000) + 1))
        .arg(format!("-max_len={}", max_len))
        .args(["-len_control=0", "-malloc_limit_mb=8000", "-rss_limit_mb=12000", "-max_total_time=1500"])
        .arg(format!("-artifact_prefix={}", artifacts))
        .env("CARGO_NET_OFFLINE", "true")
        .output();
    match out {
        Ok(o) => {
            let text = String::from_utf8_lossy(&o.stderr).to_string();
            let done = text.lines().rev().find(|l| l.contains("Done ") || l.contains("DONE")).unwrap_or("").to_string();
            let execs = text.lines().rev().find_map(|l| l.strip_prefix('#').and_then(|r| r.split_whitespace().next()).and_then(|n| n.parse::<u64>().ok())).unwrap_or(0);
            rep.evaluations += execs;
            *rep.labels.entry(format!("libfuzzer_execs_{}", target)).or_insert(0) += execs;
            rep.notes.push(format!("libFuzzer {}: {}", target, done.trim()));
            let mut crashed = false;
            if let Ok(rd) = std::fs::read_dir(&artifacts) {
                for e in rd.flatten() {
                    if let Ok(d) = std::fs::read(e.path()) {
                        crashed = true;
                        let mut f = classify(&d);
                        let keep = format!("{}/replays/fuzz-{}-{}", home, target, e.file_name().to_string_lossy());
                        let _ = std::fs::create_dir_all(format!("{}/replays", home));
                        let _ = std::fs::copy(e.path(), &keep);
                        let panic_line = text.lines().find(|l| l.contains("panicked at")).unwrap_or("").to_string();
                        f.msg = format!("{} [{}; reproduce: cargo +nightly fuzz run --fuzz-dir {} --sanitizer none {} {}]", f.msg, panic_line.trim(), fuzz_dir, target, keep);
                        let case = Case { blobs: vec![d], recs: vec![], ..crate::ops::sample_case() };
                        rep.violations.push(crate::runner::Violation { key: f.key, msg: f.msg, case: serde_json::to_value(&case).unwrap(), origin: format!("libFuzzer {}", target) });
                    }
                }
            }
            if !o.status.success() && !crashed {
                rep.notes.push(format!("libFuzzer {} did not complete (status {:?}); the campaign part is inconclusive: {}", target, o.status.code(), text.lines().rev().take(3).collect::<Vec<_>>().join(" | ")));
            }
        }
        Err(e) => rep.notes.push(format!("could not start cargo fuzz: {e}")),
    }
    let _ = std::fs::remove_dir_all(&work);
}
