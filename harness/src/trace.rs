//! libc symbol interposition: I/O trace, worker gating and fault injection.
//!
//! The binary defines `write`, `writev`, `pwrite64`, `pwritev`, `fdatasync`, `fsync`,
//! `ftruncate64`/`ftruncate`, `unlink`/`unlinkat`, `open64`/`open`/`openat`/`openat64`, `pread64`
//! and `close` itself (the calls the crate uses today plus the ones an equivalent rewrite of its
//! I/O would plausibly use). Calls that would change chunk files behind the trace's back
//! (`rename*` across the directory boundary, `fallocate`, `sync_file_range`, `copy_file_range`, `sendfile` on
//! a traced descriptor) are recorded as *unsupported*: the run then ends INCONCLUSIVE instead of
//! judging a trace that is known to be incomplete. Rust's std is linked statically and reaches the kernel
//! through these libc symbols, so the linker binds std's calls to the definitions below;
//! each forwards with a raw `syscall`. Only files directly under the directory of the active
//! trace (except `LOCK`) are observed — the chunk files and whatever else the store puts next
//! to them, `rename` inside the directory included; everything else passes straight through.

#![allow(clippy::missing_safety_doc)]

use std::collections::HashMap;
use std::ffi::CStr;
use std::sync::atomic::AtomicBool;
use std::sync::atomic::AtomicU32;
use std::sync::atomic::Ordering;
use std::sync::Condvar;
use std::sync::Mutex;
use std::sync::MutexGuard;
use std::time::Duration;
use std::time::Instant;

use libc::c_char;
use libc::c_int;
use libc::c_void;
use libc::mode_t;
use libc::off64_t;
use libc::size_t;
use libc::ssize_t;
use serde::Deserialize;
use serde::Serialize;

pub type FileId = u32;

#[derive(Debug, Clone, PartialEq, Eq)]
pub enum Mark {
    OpBegin(usize),
    OpEnd(usize),
    /// `flush()` was called: flush id, number of accepted records journalled so far,
    /// journal end offset reported by the store at that moment.
    FlushCall { flush: u64, n_records: usize, j_end: u64 },
    OpenBegin(u32),
    OpenReturned(u32),
    DropBegin(u32),
    DropReturned(u32),
    Note(&'static str),
}

#[derive(Debug, Clone, PartialEq, Eq)]
pub enum Ev {
    /// `open64` of a chunk file; `create` = O_CREAT was given.
    Open { file: FileId, create: bool, ok: bool, tid: i32 },
    Write { file: FileId, off: u64, data: Vec<u8>, tid: i32 },
    WriteFail { file: FileId, tid: i32 },
    Sync { file: FileId, ok: bool, tid: i32 },
    Truncate { file: FileId, len: u64, tid: i32 },
    Unlink { file: FileId, ok: bool, tid: i32 },
    /// `rename` inside the traced directory (a chunk file written under a temporary name).
    Rename { from: FileId, to: FileId, ok: bool, tid: i32 },
    Pread { file: FileId, off: u64, len: u64, ret: i64, tid: i32 },
    Ack { flush: u64, ok: bool, err: Option<String>, tid: i32 },
    AckDropped { flush: u64 },
    Mark(Mark),
}

#[derive(Debug, Clone, Copy, PartialEq, Eq, Hash, Serialize, Deserialize)]
pub enum FaultTarget {
    WorkerWrite,
    WorkerSync,
    WorkerUnlink,
    /// Creation of a chunk file by the caller thread (a rotation): fails without creating it.
    CallerCreate,
}

#[derive(Debug, Clone, Copy, PartialEq, Eq, Hash, Serialize, Deserialize)]
pub enum FaultKind {
    /// Fail with EIO without performing the call.
    Eio,
    /// Fail with ENOSPC without performing the call.
    Enospc,
    /// Legal short write: only `1 + (n-2) * k / 255` bytes (at least 1, fewer than all) are written.
    Short(u8),
    /// Fail with EINTR without performing the call (std retries writes).
    Eintr,
    /// A write that runs out of space half-way: this call is a short write (as `Short`), the
    /// next write call of the worker fails with ENOSPC — a torn record is left in the file.
    ShortThenFail(u8),
}

#[derive(Debug, Clone, Copy, PartialEq, Eq, Hash, Serialize, Deserialize)]
pub struct FaultRule {
    pub target: FaultTarget,
    /// The rule hits the `nth` matching call (0-based, counted since the plan was installed) ...
    pub nth: u32,
    /// ... and the `count - 1` matching calls that follow it.
    pub count: u32,
    pub kind: FaultKind,
}

#[derive(Debug, Clone, PartialEq, Eq)]
pub enum Parked {
    Write(FileId, usize),
    Sync(FileId),
    Unlink(FileId),
    Ack(u64),
}

#[derive(Debug, Clone)]
pub struct WorkerCtl {
    pub tid: i32,
    pub gated: bool,
    pub grants: u64,
    pub parked: Option<Parked>,
    pub steps_done: u64,
    /// Trace length when the worker was registered (disambiguates re-used tids).
    pub reg_pos: usize,
    /// Harness label (store instance number).
    pub label: u32,
}

pub struct Ctl {
    pub dir: String,
    pub names: Vec<String>,
    by_name: HashMap<String, FileId>,
    pub trace: Vec<Ev>,
    pub workers: Vec<WorkerCtl>,
    pub faults: Vec<FaultRule>,
    fault_counts: [u32; 4],
    /// Injected failures of caller-side calls (chunk file creation).
    pub caller_faults_hit: u32,
    pub faults_hit: u32,
    /// EIO / ENOSPC injections (short writes and EINTR are benign and not counted here).
    pub hard_faults_hit: u32,
    /// The harness thread that started the trace.
    pub main_tid: i32,
    /// First call seen that the trace cannot represent (see module doc).
    pub unsupported: Option<String>,
    /// Set by `ShortThenFail`: the worker's next write fails with ENOSPC.
    pending_write_fail: bool,
}

impl Ctl {
    fn file_id(&mut self, name: &str) -> FileId {
        if let Some(id) = self.by_name.get(name) {
            return *id;
        }
        let id = self.names.len() as FileId;
        self.names.push(name.to_string());
        self.by_name.insert(name.to_string(), id);
        id
    }

    fn worker_mut(&mut self, tid: i32) -> Option<&mut WorkerCtl> {
        self.workers.iter_mut().find(|w| w.tid == tid)
    }

    fn fault_for(&mut self, target: FaultTarget) -> Option<FaultKind> {
        let ti = target as usize;
        let n = self.fault_counts[ti];
        self.fault_counts[ti] += 1;
        for r in &self.faults {
            if r.target == target && n >= r.nth && (n - r.nth) < r.count {
                self.faults_hit += 1;
                if matches!(r.kind, FaultKind::Eio | FaultKind::Enospc | FaultKind::ShortThenFail(_)) || r.target == FaultTarget::CallerCreate {
                    self.hard_faults_hit += 1;
                }
                return Some(r.kind);
            }
        }
        None
    }
}

static CTL: Mutex<Option<Box<Ctl>>> = Mutex::new(None);
static CV: Condvar = Condvar::new();
static ACTIVE: AtomicBool = AtomicBool::new(false);
const FD_MAX: usize = 8192;
#[allow(clippy::declare_interior_mutable_const)]
const FD_ZERO: AtomicU32 = AtomicU32::new(0);
/// fd -> file id + 1 (0 = not traced).
static FD_MAP: [AtomicU32; FD_MAX] = [FD_ZERO; FD_MAX];
/// fd -> 1 if the descriptor was opened with O_SYNC / O_DSYNC (every write is its own sync).
static FD_SYNC: [AtomicU32; FD_MAX] = [FD_ZERO; FD_MAX];

fn lock() -> MutexGuard<'static, Option<Box<Ctl>>> {
    CTL.lock().unwrap_or_else(|e| e.into_inner())
}

pub fn gettid() -> i32 {
    unsafe { libc::syscall(libc::SYS_gettid) as i32 }
}

pub fn thread_alive(tid: i32) -> bool {
    let pid = unsafe { libc::getpid() };
    let r = unsafe { libc::syscall(libc::SYS_tgkill, pid, tid, 0) };
    r == 0
}

/// Number of threads of this process (field 20 of /proc/self/stat).
pub fn nr_threads() -> usize {
    let s = std::fs::read_to_string("/proc/self/stat").unwrap_or_default();
    // the command name may contain spaces: parse after the closing parenthesis
    let rest = s.rsplit_once(')').map(|x| x.1).unwrap_or("");
    rest.split_whitespace().nth(17).and_then(|x| x.parse().ok()).unwrap_or(0)
}

/// Wait until the process is back to `n` threads (a dropped store's worker has exited).
pub fn wait_threads(n: usize, limit: Duration) -> bool {
    let start = Instant::now();
    let mut spins = 0u32;
    while nr_threads() > n {
        spins += 1;
        if spins < 50 {
            std::thread::yield_now();
        } else {
            std::thread::sleep(Duration::from_micros(20));
        }
        if start.elapsed() > limit {
            return false;
        }
    }
    true
}

pub fn task_tids() -> Vec<i32> {
    let mut v = vec![];
    if let Ok(rd) = std::fs::read_dir("/proc/self/task") {
        for e in rd.flatten() {
            if let Ok(t) = e.file_name().to_string_lossy().parse::<i32>() {
                v.push(t);
            }
        }
    }
    v.sort();
    v
}

// ---------------------------------------------------------------------------------------
// Harness-side API

/// Start tracing chunk files under `dir`. Contexts do not nest: every store instance of
/// the previous context must be dropped and its worker gone before the next `begin`.
pub fn begin(dir: &str) {
    let mut g = lock();
    assert!(g.is_none(), "trace::begin while a trace is active");
    for f in FD_MAP.iter() {
        f.store(0, Ordering::Relaxed);
    }
    *g = Some(Box::new(Ctl {
        dir: dir.to_string(),
        names: vec![],
        by_name: HashMap::new(),
        trace: vec![],
        workers: vec![],
        faults: vec![],
        fault_counts: [0; 4],
        caller_faults_hit: 0,
        faults_hit: 0,
        hard_faults_hit: 0,
        main_tid: gettid(),
        unsupported: None,
        pending_write_fail: false,
    }));
    ACTIVE.store(true, Ordering::SeqCst);
}

/// Stop tracing; returns the finished context. Parked workers become free-running.
pub fn end() -> Box<Ctl> {
    let mut g = lock();
    let cur = g.take().expect("trace::end without begin");
    ACTIVE.store(false, Ordering::SeqCst);
    CV.notify_all();
    drop(g);
    if let Some(u) = &cur.unsupported {
        crate::driver::inconclusive(format!("the store used an I/O call the trace cannot represent ({u}); refusing to judge an incomplete trace"));
    }
    cur
}

pub fn wait_dead(tid: i32, limit: Duration) -> bool {
    let start = Instant::now();
    while thread_alive(tid) {
        std::thread::sleep(Duration::from_micros(50));
        if start.elapsed() > limit {
            return false;
        }
    }
    true
}

pub fn is_active() -> bool {
    ACTIVE.load(Ordering::SeqCst)
}

pub fn mark(m: Mark) {
    if let Some(c) = lock().as_mut() {
        c.trace.push(Ev::Mark(m));
    }
}

pub fn trace_len() -> usize {
    lock().as_ref().map(|c| c.trace.len()).unwrap_or(0)
}

pub fn with_ctl<R>(f: impl FnOnce(&mut Ctl) -> R) -> Option<R> {
    let mut g = lock();
    g.as_mut().map(|c| f(c))
}

pub fn register_worker(tid: i32, gated: bool, label: u32) {
    with_ctl(|c| {
        // a re-used tid: the old entry is certainly dead, retire it
        for w in c.workers.iter_mut() {
            if w.tid == tid {
                w.tid = -w.tid;
            }
        }
        let reg_pos = c.trace.len();
        c.workers.push(WorkerCtl { tid, gated, grants: 0, parked: None, steps_done: 0, reg_pos, label });
    });
}

pub fn caller_faults_hit() -> u32 {
    with_ctl(|c| c.caller_faults_hit).unwrap_or(0)
}

pub fn set_faults(f: Vec<FaultRule>) {
    with_ctl(|c| {
        c.faults = f;
        c.fault_counts = [0; 4];
    });
}

/// Allow worker `tid` to perform `k` more gated calls.
pub fn grant(tid: i32, k: u64) {
    with_ctl(|c| {
        if let Some(w) = c.worker_mut(tid) {
            w.grants = w.grants.saturating_add(k);
        }
    });
    CV.notify_all();
}

pub fn revoke(tid: i32) {
    with_ctl(|c| {
        if let Some(w) = c.worker_mut(tid) {
            w.grants = 0;
        }
    });
}

/// Make a worker free-running from now on (used when an instance is abandoned).
pub fn ungate(tid: i32) {
    with_ctl(|c| {
        if let Some(w) = c.worker_mut(tid) {
            w.gated = false;
        }
    });
    CV.notify_all();
}

pub fn parked(tid: i32) -> Option<Parked> {
    with_ctl(|c| c.worker_mut(tid).and_then(|w| w.parked.clone())).flatten()
}

pub fn steps_done(tid: i32) -> u64 {
    with_ctl(|c| c.worker_mut(tid).map(|w| w.steps_done).unwrap_or(0)).unwrap_or(0)
}

#[derive(Debug, Clone, Copy, PartialEq, Eq)]
pub enum Stable {
    Parked,
    Idle,
    Dead,
    Timeout,
}

/// Wait until worker `tid` cannot make progress on its own: it is parked at a gated call
/// (with no grant left), or `idle()` says it has processed everything it was sent, or the
/// thread is gone. All three are stable while the harness thread does nothing.
pub fn wait_stable(tid: i32, idle: &dyn Fn() -> bool, limit: Duration) -> Stable {
    let start = Instant::now();
    let mut spins = 0u32;
    loop {
        {
            let g = lock();
            if let Some(c) = g.as_ref() {
                if let Some(w) = c.workers.iter().find(|w| w.tid == tid) {
                    if w.gated && w.parked.is_some() && w.grants == 0 {
                        return Stable::Parked;
                    }
                }
            }
        }
        if idle() {
            return Stable::Idle;
        }
        if !thread_alive(tid) {
            return Stable::Dead;
        }
        spins += 1;
        if spins < 200 {
            std::thread::yield_now();
        } else {
            std::thread::sleep(Duration::from_micros(50));
            if start.elapsed() > limit {
                return Stable::Timeout;
            }
        }
    }
}

// ---------------------------------------------------------------------------------------
// Callback events (called from types::Cb)

/// Every acknowledgement ever delivered in this process since the last `reset_acks`
/// (kept independently of tracing so that plain runs can wait for acks too).
static ACKS: Mutex<Vec<(u64, Result<(), String>)>> = Mutex::new(Vec::new());

pub fn reset_acks() {
    ACKS.lock().unwrap_or_else(|e| e.into_inner()).clear();
}

pub fn acks() -> Vec<(u64, Result<(), String>)> {
    ACKS.lock().unwrap_or_else(|e| e.into_inner()).clone()
}

pub fn ack_of(flush: u64) -> Option<Result<(), String>> {
    ACKS.lock().unwrap_or_else(|e| e.into_inner()).iter().find(|a| a.0 == flush).map(|a| a.1.clone())
}

pub fn ack(flush: u64, res: Result<(), String>) {
    if is_active() {
        let tid = gettid();
        let mut g = lock();
        g = park_if_gated(g, tid, Parked::Ack(flush));
        if let Some(c) = g.as_mut() {
            c.trace.push(Ev::Ack { flush, ok: res.is_ok(), err: res.clone().err(), tid });
        }
    }
    ACKS.lock().unwrap_or_else(|e| e.into_inner()).push((flush, res));
}

pub fn ack_dropped(flush: u64) {
    if !is_active() {
        return;
    }
    if let Some(c) = lock().as_mut() {
        c.trace.push(Ev::AckDropped { flush });
    }
}

// ---------------------------------------------------------------------------------------
// Interposition

type Guard = MutexGuard<'static, Option<Box<Ctl>>>;

/// If `tid` is a gated worker: publish what it is about to do and wait for a grant.
fn park_if_gated(mut g: Guard, tid: i32, what: Parked) -> Guard {
    loop {
        let Some(c) = g.as_mut() else { return g };
        let Some(w) = c.worker_mut(tid) else { return g };
        if !w.gated {
            return g;
        }
        if w.grants > 0 {
            w.grants -= 1;
            w.parked = None;
            w.steps_done += 1;
            return g;
        }
        if w.parked.is_none() {
            w.parked = Some(what.clone());
        }
        g = CV.wait(g).unwrap_or_else(|e| e.into_inner());
    }
}

fn is_worker(c: &Ctl, tid: i32) -> bool {
    c.workers.iter().any(|w| w.tid == tid)
}

unsafe fn set_errno(e: c_int) {
    *libc::__errno_location() = e;
}

fn fd_file(fd: c_int) -> Option<FileId> {
    if fd < 0 || fd as usize >= FD_MAX {
        return None;
    }
    let v = FD_MAP[fd as usize].load(Ordering::Relaxed);
    if v == 0 {
        None
    } else {
        Some(v - 1)
    }
}

/// File name if `path` is a file directly under `dir` that belongs to the journal: the chunk
/// files, and any other file the store may put next to them (e.g. a chunk written under a
/// temporary name and renamed into place). The lock file and the harness's own witness file
/// are not part of it.
fn chunk_name<'a>(dir: &str, path: &'a str) -> Option<&'a str> {
    let rest = path.strip_prefix(dir)?;
    let rest = rest.strip_prefix('/')?;
    if rest.is_empty() || rest.contains('/') || rest == "LOCK" || rest == "witness" {
        None
    } else {
        Some(rest)
    }
}

unsafe fn do_open(dirfd: c_int, path: *const c_char, flags: c_int, mode: mode_t) -> c_int {
    // injected failure of a chunk file creation by a thread that is not a flush worker
    if ACTIVE.load(Ordering::Relaxed) && !path.is_null() && flags & libc::O_CREAT != 0 {
        if let Ok(p) = CStr::from_ptr(path).to_str() {
            let tid = gettid();
            let mut g = lock();
            if let Some(c) = g.as_mut() {
                if !c.faults.is_empty() && !is_worker(c, tid) {
                    if let Some(name) = chunk_name(&c.dir, p) {
                        let name = name.to_string();
                        if c.fault_for(FaultTarget::CallerCreate).is_some() {
                            let id = c.file_id(&name);
                            c.caller_faults_hit += 1;
                            c.trace.push(Ev::Open { file: id, create: true, ok: false, tid });
                            drop(g);
                            set_errno(libc::ENOSPC);
                            return -1;
                        }
                    }
                }
            }
        }
    }
    let fd = libc::syscall(libc::SYS_openat, dirfd, path, flags | libc::O_LARGEFILE, mode as libc::c_uint) as c_int;
    if !ACTIVE.load(Ordering::Relaxed) || path.is_null() {
        return fd;
    }
    let saved = *libc::__errno_location();
    if let Ok(p) = CStr::from_ptr(path).to_str() {
        let mut g = lock();
        if let Some(c) = g.as_mut() {
            if let Some(name) = chunk_name(&c.dir, p) {
                let name = name.to_string();
                let id = c.file_id(&name);
                let tid = gettid();
                c.trace.push(Ev::Open { file: id, create: flags & libc::O_CREAT != 0, ok: fd >= 0, tid });
                if fd >= 0 && flags & libc::O_TRUNC != 0 {
                    c.trace.push(Ev::Truncate { file: id, len: 0, tid });
                }
                if fd >= 0 && (fd as usize) < FD_MAX {
                    FD_MAP[fd as usize].store(id + 1, Ordering::Relaxed);
                    FD_SYNC[fd as usize].store((flags & (libc::O_SYNC | libc::O_DSYNC) != 0) as u32, Ordering::Relaxed);
                }
            }
        }
    }
    set_errno(saved);
    fd
}

#[no_mangle]
pub unsafe extern "C" fn open64(path: *const c_char, flags: c_int, mode: mode_t) -> c_int {
    do_open(libc::AT_FDCWD, path, flags, mode)
}

#[no_mangle]
pub unsafe extern "C" fn open(path: *const c_char, flags: c_int, mode: mode_t) -> c_int {
    do_open(libc::AT_FDCWD, path, flags, mode)
}

#[no_mangle]
pub unsafe extern "C" fn openat64(dirfd: c_int, path: *const c_char, flags: c_int, mode: mode_t) -> c_int {
    do_open(dirfd, path, flags, mode)
}

#[no_mangle]
pub unsafe extern "C" fn openat(dirfd: c_int, path: *const c_char, flags: c_int, mode: mode_t) -> c_int {
    do_open(dirfd, path, flags, mode)
}

#[no_mangle]
pub unsafe extern "C" fn close(fd: c_int) -> c_int {
    if fd >= 0 && (fd as usize) < FD_MAX {
        FD_MAP[fd as usize].store(0, Ordering::Relaxed);
        FD_SYNC[fd as usize].store(0, Ordering::Relaxed);
    }
    libc::syscall(libc::SYS_close, fd) as c_int
}

unsafe fn raw_write(fd: c_int, buf: *const c_void, n: size_t, at: Option<off64_t>) -> ssize_t {
    match at {
        None => libc::syscall(libc::SYS_write, fd, buf, n) as ssize_t,
        Some(off) => libc::syscall(libc::SYS_pwrite64, fd, buf, n, off) as ssize_t,
    }
}

/// One write of `n` bytes at the descriptor's position (`at == None`) or at offset `at`.
unsafe fn do_write(fd: c_int, file: FileId, buf: *const c_void, n: size_t, at: Option<off64_t>) -> ssize_t {
    if !ACTIVE.load(Ordering::Relaxed) {
        return raw_write(fd, buf, n, at);
    }
    let tid = gettid();
    let mut g = lock();
    g = park_if_gated(g, tid, Parked::Write(file, n));
    let Some(c) = g.as_mut() else {
        drop(g);
        return raw_write(fd, buf, n, at);
    };
    let mut len = n;
    if is_worker(c, tid) && c.pending_write_fail {
        c.pending_write_fail = false;
        c.faults_hit += 1;
        c.hard_faults_hit += 1;
        c.trace.push(Ev::WriteFail { file, tid });
        set_errno(libc::ENOSPC);
        return -1;
    }
    if is_worker(c, tid) {
        match c.fault_for(FaultTarget::WorkerWrite) {
            Some(FaultKind::Eio) => {
                c.trace.push(Ev::WriteFail { file, tid });
                set_errno(libc::EIO);
                return -1;
            }
            Some(FaultKind::Enospc) => {
                c.trace.push(Ev::WriteFail { file, tid });
                set_errno(libc::ENOSPC);
                return -1;
            }
            Some(FaultKind::Eintr) => {
                set_errno(libc::EINTR);
                return -1;
            }
            Some(FaultKind::Short(k)) => {
                if n >= 2 {
                    len = 1 + (n - 2) * (k as usize) / 255;
                }
            }
            Some(FaultKind::ShortThenFail(k)) => {
                if n >= 2 {
                    len = 1 + (n - 2) * (k as usize) / 255;
                    c.pending_write_fail = true;
                }
            }
            None => {}
        }
    }
    let r = raw_write(fd, buf, len, at);
    if r >= 0 {
        // where the bytes went: the explicit offset, or the position after the call minus what
        // was written (right for O_APPEND descriptors too)
        let off = match at {
            Some(o) => o.max(0) as u64,
            None => {
                let after = libc::syscall(libc::SYS_lseek, fd, 0, libc::SEEK_CUR);
                (after.max(0) as u64).saturating_sub(r as u64)
            }
        };
        let data = std::slice::from_raw_parts(buf as *const u8, r as usize).to_vec();
        c.trace.push(Ev::Write { file, off, data, tid });
        // a descriptor opened with O_SYNC / O_DSYNC: the write returns when the data is durable
        if fd >= 0 && (fd as usize) < FD_MAX && FD_SYNC[fd as usize].load(Ordering::Relaxed) != 0 {
            c.trace.push(Ev::Sync { file, ok: true, tid });
        }
    } else {
        let saved = *libc::__errno_location();
        c.trace.push(Ev::WriteFail { file, tid });
        set_errno(saved);
    }
    r
}

#[no_mangle]
pub unsafe extern "C" fn write(fd: c_int, buf: *const c_void, n: size_t) -> ssize_t {
    match fd_file(fd) {
        Some(file) => do_write(fd, file, buf, n, None),
        None => libc::syscall(libc::SYS_write, fd, buf, n) as ssize_t,
    }
}

#[no_mangle]
pub unsafe extern "C" fn pwrite64(fd: c_int, buf: *const c_void, n: size_t, off: off64_t) -> ssize_t {
    match fd_file(fd) {
        Some(file) => do_write(fd, file, buf, n, Some(off)),
        None => libc::syscall(libc::SYS_pwrite64, fd, buf, n, off) as ssize_t,
    }
}

unsafe fn gather(iov: *const libc::iovec, cnt: c_int) -> Vec<u8> {
    let mut v = vec![];
    if !iov.is_null() && cnt > 0 {
        for io in std::slice::from_raw_parts(iov, cnt as usize) {
            if !io.iov_base.is_null() && io.iov_len > 0 {
                v.extend_from_slice(std::slice::from_raw_parts(io.iov_base as *const u8, io.iov_len));
            }
        }
    }
    v
}

/// A vectored write is performed as one write of the gathered bytes (it may legally be short).
#[no_mangle]
pub unsafe extern "C" fn writev(fd: c_int, iov: *const libc::iovec, cnt: c_int) -> ssize_t {
    match fd_file(fd) {
        Some(file) => {
            let v = gather(iov, cnt);
            do_write(fd, file, v.as_ptr() as *const c_void, v.len(), None)
        }
        None => libc::syscall(libc::SYS_writev, fd, iov, cnt) as ssize_t,
    }
}

#[no_mangle]
pub unsafe extern "C" fn pwritev(fd: c_int, iov: *const libc::iovec, cnt: c_int, off: off64_t) -> ssize_t {
    match fd_file(fd) {
        Some(file) => {
            let v = gather(iov, cnt);
            do_write(fd, file, v.as_ptr() as *const c_void, v.len(), Some(off))
        }
        None => libc::syscall(libc::SYS_pwritev, fd, iov, cnt, off, 0 as libc::c_long) as ssize_t,
    }
}

#[no_mangle]
pub unsafe extern "C" fn pwritev64(fd: c_int, iov: *const libc::iovec, cnt: c_int, off: off64_t) -> ssize_t {
    pwritev(fd, iov, cnt, off)
}

fn note_unsupported(what: String) {
    if let Some(c) = lock().as_mut() {
        if c.unsupported.is_none() {
            c.unsupported = Some(what);
        }
    }
}

unsafe fn path_is_chunk(path: *const c_char) -> bool {
    if path.is_null() || !ACTIVE.load(Ordering::Relaxed) {
        return false;
    }
    let Ok(p) = CStr::from_ptr(path).to_str() else { return false };
    let g = lock();
    match g.as_ref() {
        Some(c) => chunk_name(&c.dir, p).is_some(),
        None => false,
    }
}

unsafe fn traced_name(path: *const c_char) -> Option<String> {
    if path.is_null() || !ACTIVE.load(Ordering::Relaxed) {
        return None;
    }
    let p = CStr::from_ptr(path).to_str().ok()?;
    let g = lock();
    let c = g.as_ref()?;
    chunk_name(&c.dir, p).map(|n| n.to_string())
}

unsafe fn do_rename(fd1: c_int, from: *const c_char, fd2: c_int, to: *const c_char, flags: libc::c_uint) -> c_int {
    let (a, b) = (traced_name(from), traced_name(to));
    match (a, b) {
        (None, None) => libc::syscall(libc::SYS_renameat2, fd1, from, fd2, to, flags) as c_int,
        (Some(a), Some(b)) if flags == 0 => {
            let r = libc::syscall(libc::SYS_renameat2, fd1, from, fd2, to, flags) as c_int;
            let saved = *libc::__errno_location();
            let tid = gettid();
            if let Some(c) = lock().as_mut() {
                let (fa, fb) = (c.file_id(&a), c.file_id(&b));
                c.trace.push(Ev::Rename { from: fa, to: fb, ok: r == 0, tid });
                if r == 0 {
                    // descriptors opened under the old name now refer to the new one
                    for f in FD_MAP.iter() {
                        if f.load(Ordering::Relaxed) == fa + 1 {
                            f.store(fb + 1, Ordering::Relaxed);
                        }
                    }
                }
            }
            set_errno(saved);
            r
        }
        _ => {
            note_unsupported("rename between the journal directory and elsewhere (or with flags)".to_string());
            libc::syscall(libc::SYS_renameat2, fd1, from, fd2, to, flags) as c_int
        }
    }
}

#[no_mangle]
pub unsafe extern "C" fn rename(from: *const c_char, to: *const c_char) -> c_int {
    do_rename(libc::AT_FDCWD, from, libc::AT_FDCWD, to, 0)
}

#[no_mangle]
pub unsafe extern "C" fn renameat(fd1: c_int, from: *const c_char, fd2: c_int, to: *const c_char) -> c_int {
    do_rename(fd1, from, fd2, to, 0)
}

#[no_mangle]
pub unsafe extern "C" fn renameat2(fd1: c_int, from: *const c_char, fd2: c_int, to: *const c_char, flags: libc::c_uint) -> c_int {
    do_rename(fd1, from, fd2, to, flags)
}

#[no_mangle]
pub unsafe extern "C" fn fallocate64(fd: c_int, mode: c_int, off: off64_t, len: off64_t) -> c_int {
    if fd_file(fd).is_some() && ACTIVE.load(Ordering::Relaxed) {
        note_unsupported("fallocate() on a chunk file".to_string());
    }
    libc::syscall(libc::SYS_fallocate, fd, mode, off, len) as c_int
}

#[no_mangle]
pub unsafe extern "C" fn fallocate(fd: c_int, mode: c_int, off: off64_t, len: off64_t) -> c_int {
    fallocate64(fd, mode, off, len)
}

#[no_mangle]
pub unsafe extern "C" fn posix_fallocate64(fd: c_int, off: off64_t, len: off64_t) -> c_int {
    if fd_file(fd).is_some() && ACTIVE.load(Ordering::Relaxed) {
        note_unsupported("posix_fallocate() on a chunk file".to_string());
    }
    let r = libc::syscall(libc::SYS_fallocate, fd, 0, off, len) as c_int;
    if r == 0 {
        0
    } else {
        *libc::__errno_location()
    }
}

#[no_mangle]
pub unsafe extern "C" fn posix_fallocate(fd: c_int, off: off64_t, len: off64_t) -> c_int {
    posix_fallocate64(fd, off, len)
}

#[no_mangle]
pub unsafe extern "C" fn sync_file_range(fd: c_int, off: off64_t, n: off64_t, flags: libc::c_uint) -> c_int {
    if fd_file(fd).is_some() && ACTIVE.load(Ordering::Relaxed) {
        note_unsupported("sync_file_range() on a chunk file".to_string());
    }
    libc::syscall(libc::SYS_sync_file_range, fd, off, n, flags) as c_int
}

#[no_mangle]
pub unsafe extern "C" fn copy_file_range(fd_in: c_int, off_in: *mut off64_t, fd_out: c_int, off_out: *mut off64_t, len: size_t, flags: libc::c_uint) -> ssize_t {
    if fd_file(fd_out).is_some() && ACTIVE.load(Ordering::Relaxed) {
        note_unsupported("copy_file_range() into a chunk file".to_string());
    }
    libc::syscall(libc::SYS_copy_file_range, fd_in, off_in, fd_out, off_out, len, flags) as ssize_t
}

#[no_mangle]
pub unsafe extern "C" fn sendfile64(fd_out: c_int, fd_in: c_int, off: *mut off64_t, len: size_t) -> ssize_t {
    if fd_file(fd_out).is_some() && ACTIVE.load(Ordering::Relaxed) {
        note_unsupported("sendfile() into a chunk file".to_string());
    }
    libc::syscall(libc::SYS_sendfile, fd_out, fd_in, off, len) as ssize_t
}

#[no_mangle]
pub unsafe extern "C" fn sendfile(fd_out: c_int, fd_in: c_int, off: *mut off64_t, len: size_t) -> ssize_t {
    sendfile64(fd_out, fd_in, off, len)
}

unsafe fn do_sync(fd: c_int, nr: libc::c_long) -> c_int {
    let Some(file) = fd_file(fd) else {
        return libc::syscall(nr, fd) as c_int;
    };
    if !ACTIVE.load(Ordering::Relaxed) {
        return libc::syscall(nr, fd) as c_int;
    }
    let tid = gettid();
    let mut g = lock();
    g = park_if_gated(g, tid, Parked::Sync(file));
    let Some(c) = g.as_mut() else {
        return 0;
    };
    if is_worker(c, tid) {
        if let Some(k) = c.fault_for(FaultTarget::WorkerSync) {
            c.trace.push(Ev::Sync { file, ok: false, tid });
            set_errno(match k {
                FaultKind::Enospc => libc::ENOSPC,
                _ => libc::EIO,
            });
            return -1;
        }
    }
    // Durability is decided by the shadow file system, the real sync is not executed
    // (the case directories live on tmpfs).
    c.trace.push(Ev::Sync { file, ok: true, tid });
    0
}

#[no_mangle]
pub unsafe extern "C" fn fdatasync(fd: c_int) -> c_int {
    do_sync(fd, libc::SYS_fdatasync)
}

#[no_mangle]
pub unsafe extern "C" fn fsync(fd: c_int) -> c_int {
    do_sync(fd, libc::SYS_fsync)
}

#[no_mangle]
pub unsafe extern "C" fn ftruncate64(fd: c_int, len: off64_t) -> c_int {
    let r = libc::syscall(libc::SYS_ftruncate, fd, len) as c_int;
    if let Some(file) = fd_file(fd) {
        if ACTIVE.load(Ordering::Relaxed) && r == 0 {
            let saved = *libc::__errno_location();
            let tid = gettid();
            if let Some(c) = lock().as_mut() {
                c.trace.push(Ev::Truncate { file, len: len as u64, tid });
            }
            set_errno(saved);
        }
    }
    r
}

#[no_mangle]
pub unsafe extern "C" fn ftruncate(fd: c_int, len: off64_t) -> c_int {
    ftruncate64(fd, len)
}

#[no_mangle]
pub unsafe extern "C" fn pread64(fd: c_int, buf: *mut c_void, n: size_t, off: off64_t) -> ssize_t {
    let r = libc::syscall(libc::SYS_pread64, fd, buf, n, off) as ssize_t;
    if let Some(file) = fd_file(fd) {
        if ACTIVE.load(Ordering::Relaxed) {
            let saved = *libc::__errno_location();
            let tid = gettid();
            if let Some(c) = lock().as_mut() {
                c.trace.push(Ev::Pread { file, off: off as u64, len: n as u64, ret: r as i64, tid });
            }
            set_errno(saved);
        }
    }
    r
}

#[no_mangle]
pub unsafe extern "C" fn unlinkat(dirfd: c_int, path: *const c_char, flags: c_int) -> c_int {
    // only absolute chunk paths can be recognised; a directory removal is never one
    if flags & libc::AT_REMOVEDIR == 0 && path_is_chunk(path) {
        return unlink(path);
    }
    libc::syscall(libc::SYS_unlinkat, dirfd, path, flags) as c_int
}

#[no_mangle]
pub unsafe extern "C" fn unlink(path: *const c_char) -> c_int {
    if !ACTIVE.load(Ordering::Relaxed) || path.is_null() {
        return libc::syscall(libc::SYS_unlink, path) as c_int;
    }
    let Ok(p) = CStr::from_ptr(path).to_str() else {
        return libc::syscall(libc::SYS_unlink, path) as c_int;
    };
    let tid = gettid();
    let mut g = lock();
    let file = match g.as_mut() {
        Some(c) => match chunk_name(&c.dir, p) {
            Some(name) => {
                let name = name.to_string();
                Some(c.file_id(&name))
            }
            None => None,
        },
        None => None,
    };
    let Some(file) = file else {
        drop(g);
        return libc::syscall(libc::SYS_unlink, path) as c_int;
    };
    g = park_if_gated(g, tid, Parked::Unlink(file));
    let Some(c) = g.as_mut() else {
        drop(g);
        return libc::syscall(libc::SYS_unlink, path) as c_int;
    };
    if is_worker(c, tid) {
        if let Some(_k) = c.fault_for(FaultTarget::WorkerUnlink) {
            c.trace.push(Ev::Unlink { file, ok: false, tid });
            set_errno(libc::EIO);
            return -1;
        }
    }
    let r = libc::syscall(libc::SYS_unlink, path) as c_int;
    let saved = *libc::__errno_location();
    c.trace.push(Ev::Unlink { file, ok: r == 0, tid });
    set_errno(saved);
    r
}
