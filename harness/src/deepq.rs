//! Deep-queue scenario (C04 / C11): the worker is parked while the caller keeps journalling and
//! flushing until the request channel is full (the caller then blocks in `send`); only then is
//! the worker released. This is the only way to reach the worker's batch cap and the channel
//! capacity, which no generated history of <= 120 ops does.

use std::time::Duration;
use std::time::Instant;

use crate::crash::Recorded;
use crate::driver::Fail;
use crate::ops::CfgSpec;
use crate::ops::FirstSel;
use crate::ops::OpSpec;
use crate::ops::PaySel;
use crate::ops::TermSel;
use crate::props::with_run;
use crate::trace;

fn thread_state(tid: i32) -> char {
    let s = std::fs::read_to_string(format!("/proc/self/task/{}/stat", tid)).unwrap_or_default();
    s.rsplit_once(')').and_then(|x| x.1.trim_start().chars().next()).unwrap_or('R')
}

/// Returns the recording (trace, layout, flushes) of the scenario after everything has drained.
pub fn deep_queue(n_flushes: usize) -> Result<(Recorded, u64), Fail> {
    let cfg = CfgSpec { max_records: None, max_size: None, read_buf: Some(4096), cache_items: None, cache_cap: None, trunc: None };
    let ((model, flushes, records_after_op, classes, layout, blocked), ctl) = with_run(&cfg, true, &[], |run| {
        run.no_auto_settle = true;
        let worker = run.worker();
        let (tid_tx, tid_rx) = std::sync::mpsc::channel::<i32>();
        let mut blocked = 0u64;
        let res: Result<(), Fail> = std::thread::scope(|s| {
            let h = s.spawn(|| -> Result<(), Fail> {
                let _ = tid_tx.send(trace::gettid());
                for i in 0..n_flushes {
                    run.exec(&OpSpec::Append { n: 1, term: TermSel::Same, first: FirstSel::Zero, pay: PaySel::Tiny((i % 9) as u8 + 1) })?;
                    run.flush_call(false)?;
                }
                Ok(())
            });
            let helper = tid_rx.recv().unwrap_or(0);
            let t0 = Instant::now();
            let mut asleep_since: Option<Instant> = None;
            while !h.is_finished() {
                if thread_state(helper) != 'R' {
                    let since = *asleep_since.get_or_insert_with(Instant::now);
                    if since.elapsed() > Duration::from_millis(5) {
                        // the caller is blocked on the full request channel: let the worker drain a little
                        blocked += 1;
                        trace::grant(worker, 64);
                        std::thread::sleep(Duration::from_millis(1));
                        asleep_since = None;
                    }
                } else {
                    asleep_since = None;
                }
                std::thread::sleep(Duration::from_micros(200));
                if t0.elapsed() > Duration::from_secs(120) {
                    crate::driver::inconclusive("deep-queue scenario did not finish");
                }
            }
            h.join().unwrap_or_else(|_| Err(Fail::new("panic", "deep-queue caller thread panicked")))
        });
        res?;
        trace::revoke(worker);
        run.no_auto_settle = false;
        run.run_to_idle();
        // one settled flush at the end
        run.flush_and_settle()?;
        crate::props::c11::check_dir_layout(run).map_err(|mut f| {
            f.key = format!("deep-queue/{}", f.key);
            f
        })?;
        run.check_state()?;
        run.check_full_read()?;
        Ok((run.model.clone(), run.flushes.clone(), run.records_after_op.clone(), run.classes.clone(), run.layout.clone(), blocked))
    })?;
    Ok((Recorded { trace: ctl.trace, names: ctl.names, model, flushes, records_after_op, classes, excluded: 0, faults_hit: 0, hard_faults_hit: 0, layout }, blocked))
}
