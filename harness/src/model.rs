//! Reference model: a plain in-memory Raft log written from the documented rules
//! (RaftLogWriter doc comments + the checks in raft_log_state.rs), never by calling the
//! crate. It also keeps the list of accepted records and the state after every prefix.

use std::collections::BTreeMap;

use serde::Deserialize;
use serde::Serialize;

use crate::types::LogId;
use crate::types::Vote;

#[derive(Debug, Clone, Default, PartialEq, Eq, Hash, Serialize, Deserialize)]
pub struct MState {
    pub vote: Option<Vote>,
    pub last: Option<LogId>,
    pub committed: Option<LogId>,
    pub purged: Option<LogId>,
    pub user_data: Option<String>,
}

#[derive(Debug, Clone, PartialEq, Eq, Hash, Serialize, Deserialize)]
pub enum Rec {
    Vote(Vote),
    Append(LogId, String),
    Commit(LogId),
    TruncateAfter(Option<LogId>),
    PurgeUpto(LogId),
    State(MState),
}

impl Rec {
    pub fn kind(&self) -> &'static str {
        match self {
            Rec::Vote(_) => "vote",
            Rec::Append(..) => "append",
            Rec::Commit(_) => "commit",
            Rec::TruncateAfter(_) => "truncate",
            Rec::PurgeUpto(_) => "purge",
            Rec::State(_) => "state",
        }
    }
}

#[derive(Debug, Clone, PartialEq, Eq)]
pub enum Reject {
    VoteReversal,
    LogIdReversal,
    NonConsecutive,
    CommitReversal,
    IndexNotFound,
}

pub fn next_index(id: Option<&LogId>) -> u64 {
    match id {
        Some(id) => id.1.wrapping_add(1),
        None => 0,
    }
}

/// Snapshot of what a caller can observe.
#[derive(Debug, Clone, PartialEq, Eq, Default)]
pub struct Snapshot {
    pub st: MState,
    pub log: BTreeMap<u64, (LogId, String)>,
}

impl Snapshot {
    pub fn entries(&self) -> Vec<(LogId, String)> {
        self.log.values().cloned().collect()
    }
    pub fn range(&self, from: u64, to: u64) -> Vec<(LogId, String)> {
        if from >= to {
            return vec![];
        }
        self.log.range(from..to).map(|(_, v)| v.clone()).collect()
    }
}

#[derive(Debug, Clone, Default)]
pub struct Model {
    pub cur: Snapshot,
    /// Accepted records in call order (chunk head snapshots are not part of it).
    pub records: Vec<Rec>,
    /// `prefix[i]` = observable state after the first `i` accepted records.
    pub prefix: Vec<Snapshot>,
}

impl Model {
    pub fn new() -> Self {
        Model { cur: Snapshot::default(), records: vec![], prefix: vec![Snapshot::default()] }
    }

    /// Start a model from an already recovered observable state (used after a crash
    /// recovery: the history continues from the recovered prefix).
    pub fn from_snapshot(s: Snapshot) -> Self {
        Model { cur: s.clone(), records: vec![], prefix: vec![s] }
    }

    pub fn st(&self) -> &MState {
        &self.cur.st
    }

    fn push(&mut self, r: Rec) {
        self.records.push(r);
        self.prefix.push(self.cur.clone());
    }

    pub fn check_vote(&self, v: &Vote) -> Result<(), Reject> {
        if Some(v) >= self.cur.st.vote.as_ref() { Ok(()) } else { Err(Reject::VoteReversal) }
    }

    pub fn save_vote(&mut self, v: Vote) -> Result<(), Reject> {
        self.check_vote(&v)?;
        self.cur.st.vote = Some(v);
        self.push(Rec::Vote(v));
        Ok(())
    }

    pub fn check_append(&self, id: &LogId) -> Result<(), Reject> {
        if Some(id) <= self.cur.st.last.as_ref() {
            return Err(Reject::LogIdReversal);
        }
        if self.cur.st.last.is_some() && next_index(self.cur.st.last.as_ref()) != id.1 {
            return Err(Reject::NonConsecutive);
        }
        Ok(())
    }

    pub fn append_one(&mut self, id: LogId, payload: String) -> Result<(), Reject> {
        self.check_append(&id)?;
        self.cur.st.last = Some(id);
        self.cur.log.insert(id.1, (id, payload.clone()));
        self.push(Rec::Append(id, payload));
        Ok(())
    }

    pub fn check_commit(&self, id: &LogId) -> Result<(), Reject> {
        if Some(id) < self.cur.st.committed.as_ref() { Err(Reject::CommitReversal) } else { Ok(()) }
    }

    pub fn commit(&mut self, id: LogId) -> Result<(), Reject> {
        self.check_commit(&id)?;
        self.cur.st.committed = Some(id);
        self.push(Rec::Commit(id));
        Ok(())
    }

    /// The log id that `truncate(index)` keeps as last, or a rejection.
    pub fn check_truncate(&self, index: u64) -> Result<Option<LogId>, Reject> {
        if index == next_index(self.cur.st.purged.as_ref()) {
            return Ok(self.cur.st.purged);
        }
        if index == 0 {
            return Err(Reject::IndexNotFound);
        }
        match self.cur.log.get(&(index - 1)) {
            Some((id, _)) => Ok(Some(*id)),
            None => Err(Reject::IndexNotFound),
        }
    }

    pub fn truncate(&mut self, index: u64) -> Result<(), Reject> {
        let keep = self.check_truncate(index)?;
        let _ = self.cur.log.split_off(&index);
        if self.cur.st.last.as_ref() > keep.as_ref() {
            self.cur.st.last = keep;
        }
        self.push(Rec::TruncateAfter(keep));
        Ok(())
    }

    /// `true` if a record is journalled (a purge at or below the purged index is a no-op).
    pub fn purge(&mut self, upto: LogId) -> bool {
        if upto.1 < next_index(self.cur.st.purged.as_ref()) {
            return false;
        }
        let keep = self.cur.log.split_off(&(upto.1.wrapping_add(1)));
        self.cur.log = keep;
        if self.cur.st.purged < Some(upto) {
            self.cur.st.purged = Some(upto);
        }
        if Some(upto) > self.cur.st.last {
            self.cur.st.last = Some(upto);
        }
        self.push(Rec::PurgeUpto(upto));
        true
    }

    pub fn save_user_data(&mut self, ud: Option<String>) {
        self.cur.st.user_data = ud;
        let st = self.cur.st.clone();
        self.push(Rec::State(st));
    }

    pub fn update_state(&mut self, st: MState) {
        self.cur.st = st.clone();
        self.push(Rec::State(st));
    }

    pub fn first_live(&self) -> Option<u64> {
        self.cur.log.keys().next().copied()
    }
    pub fn last_live(&self) -> Option<u64> {
        self.cur.log.keys().next_back().copied()
    }
}

/// Apply a record to a snapshot the way replay would (used to rebuild states from decoded
/// journals independently of the crate).
pub fn apply_rec(s: &mut Snapshot, r: &Rec) {
    match r {
        Rec::Vote(v) => s.st.vote = Some(*v),
        Rec::Append(id, p) => {
            s.st.last = Some(*id);
            s.log.insert(id.1, (*id, p.clone()));
        }
        Rec::Commit(id) => s.st.committed = Some(*id),
        Rec::TruncateAfter(keep) => {
            let idx = next_index(keep.as_ref());
            let _ = s.log.split_off(&idx);
            if s.st.last.as_ref() > keep.as_ref() {
                s.st.last = *keep;
            }
        }
        Rec::PurgeUpto(upto) => {
            let keep = s.log.split_off(&(upto.1.wrapping_add(1)));
            s.log = keep;
            if s.st.purged < Some(*upto) {
                s.st.purged = Some(*upto);
            }
            if Some(*upto) > s.st.last {
                s.st.last = Some(*upto);
            }
        }
        Rec::State(st) => s.st = st.clone(),
    }
}
