#!/bin/bash
# tools_try_mutant.sh <patch.diff> <ID> [<ID>...] — apply a breaking change to /repo, run the
# quick checks of the listed properties against it, and undo it straight afterwards.
# Prints one line per check: CAUGHT / MISSED / INCONCLUSIVE.
set -u
PATCH="$1"; shift
cd /repo || exit 2
if ! git diff --quiet; then echo "refusing: /repo has uncommitted changes"; exit 2; fi
if ! git apply --check "$PATCH" 2>/dev/null; then echo "patch does not apply: $PATCH"; exit 2; fi
git apply "$PATCH"
# evidence files must only ever come from runs on the unchanged tree: keep them aside
EVBAK=$(mktemp -d /dev/shm/rlv-evbak.XXXXXX)
cp -a /verif/evidence/. "$EVBAK"/ 2>/dev/null
restore() {
  git -C /repo checkout -- . ; git -C /repo clean -fdq src tests 2>/dev/null
  rm -rf /verif/evidence; mkdir -p /verif/evidence; cp -a "$EVBAK"/. /verif/evidence/ 2>/dev/null; rm -rf "$EVBAK"
  # the harness binary was built against the changed tree: rebuild it against the restored one
  (cd /verif/harness && cargo build --release --offline >/dev/null 2>&1)
}
trap restore EXIT
for ID in "$@"; do
  OUT=$(cd /verif && VERIF_SEED=${VERIF_SEED:-5} ./check "$ID" ${TIER:-quick} 2>&1)
  RC=$?
  KEY=$(echo "$OUT" | grep -A1 "^VIOLATION" | grep -m1 "key=" | sed 's/^ *//' | cut -c1-200)
  case $RC in
    0) echo "MISSED  $ID  $(echo "$OUT" | tail -1 | cut -c1-120)";;
    1) echo "CAUGHT  $ID  $KEY"
       # SAVE_CORPUS=<name>: keep the (shrunk) failing case as a regression case that every later
       # run of the check replays first (on the unchanged tree it must pass)
       if [ -n "${SAVE_CORPUS:-}" ]; then
         RP=$(echo "$OUT" | grep -m1 "^VIOLATION" | sed 's/.*replay=//')
         if [ -f "$RP" ] && [ "${RP##*.}" = json ]; then mkdir -p /verif/corpus/$ID; cp "$RP" /verif/corpus/$ID/$SAVE_CORPUS.json; fi
       fi;;
    *) echo "INCONCLUSIVE($RC) $ID $(echo "$OUT" | tail -2 | tr '\n' ' ' | cut -c1-200)";;
  esac
done
rm -rf /verif/replays
