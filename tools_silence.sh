#!/bin/bash
# tools_silence.sh <logfile> <seed> [<seed>...] — every quick check on the unchanged /repo, once per
# seed, from a scratch copy of the committed /verif (so that editing /verif meanwhile does not
# matter). One line per run; anything but rc=0 needs attention.
LOG="$1"; shift
W=/tmp/mut/silence; rm -rf "$W"; mkdir -p "$W/verif"
git -C /verif archive HEAD | tar -x -C "$W/verif" --exclude=seeded --exclude=benign
rsync -a /verif/harness/target "$W/verif/harness/" 2>/dev/null
for seed in "$@"; do
  for id in C01 C02 C03 C04 C05 C06 C07 C08 C09 C10 C11 C12 C13 C14 C15 C16; do
    s=$(date +%s)
    OUT=$(cd "$W/verif" && VERIF_SEED=$seed ./check $id quick 2>&1); RC=$?
    e=$(date +%s)
    echo "seed=$seed $id rc=$RC $((e-s))s $(echo "$OUT" | grep -E 'VIOLATION|key=|INCONCL' | tr '\n' ' ' | cut -c1-400)" >> "$LOG"
    if [ $RC -ne 0 ]; then mkdir -p /tmp/r3out/silence_fail; cp -r "$W/verif/replays" /tmp/r3out/silence_fail/replays-$seed-$id 2>/dev/null; fi
  done
done
echo ALLDONE >> "$LOG"
rm -rf "$W"
