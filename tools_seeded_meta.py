#!/usr/bin/env python3
"""Writes /verif/seeded/<id>/meta.json from the table below and a sweep log
(output of tools_try_mutant.sh per mutant: '## <id>' line followed by CAUGHT/MISSED lines)."""
import json, re, sys, os

NEEDS = {
 "C01-m1": ("TruncateAfter(None) no longer empties the log index map (only the cache is cleared)", "truncate(0) on a log that was never purged; then reads / a lower-term re-append"),
 "C01-m2": ("purge releases a removed chunk's payloads by log id (remove_upto) instead of by index", "truncate + lower-term re-append, a rotation before the truncate record, a purge reaching that chunk while lower-id higher-index entries are live in the open chunk; only under some chunk limits"),
 "C02-m1": ("reopen_last_closed pops the last chunk and then forgets it when it is already full under the (lowered) limits", "clean restart with lower chunk limits, then rotation + flush + append under cache pressure, read of a pre-restart entry"),
 "C02-m2": ("chunk heads are written with user_data None and replay carries user_data over from the previous chunk", "save_user_data, >=1 rotation, purge + flush deleting the chunk that holds the record, clean restart"),
 "C03-m1": ("flush() with nothing buffered is acknowledged on the caller thread", "callback-carrying flush while earlier writes are still queued at the worker, crash in that window"),
 "C03-m2": ("worker skips fdatasync when the batch carried no bytes", "a purge record that fills its chunk + empty flush + power loss (new chunk's head never synced), or a retry flush after a failed sync"),
 "C04-m1": ("a Write request with empty data is acknowledged immediately in the batch loop", "flush(data) and flush(nothing new) landing in one worker batch: second callback fires before the first sync / first callback"),
 "C04-m2": ("closed file dropped without sync when sync_id == next file's starting offset; sync_id set before the sync", "rotation with unflushed bytes whose tail fdatasync fails once; a later flush acks Ok"),
 "C05-m1": ("purged chunk files are unlinked newest-first", "one purge obsoleting >=2 closed chunks, crash between two unlinks, restart"),
 "C05-m2": ("an empty newest chunk is taken over in place (head State written at the old file position)", "crash leaving 1..49 bytes of a new chunk's head record, successful recovery, writes, one more restart"),
 "C06-m1": ("only the first entry of an append batch is validated before journalling", "multi-entry batch whose refused entry is not the first"),
 "C06-m2": ("append() runs the cache eviction pass before validating", "small cache, chunk roll-over, synced flush + worker idle, then a rejected append"),
 "C07-m1": ("the caller advances the eviction boundary when it closes a chunk under cache pressure", "tiny cache, worker at least one chunk behind, one more insert, read before the worker catches up"),
 "C07-m2": ("dump_data() shares the live payload cache instead of copying it", "snapshot held while the live store closes the chunk, flushes and evicts; then the snapshot is iterated"),
 "C08-m1": ("purge selects obsolete chunks with a filter instead of an oldest-first prefix", "non-monotonic closing indexes (truncate + re-append across chunks), then a purge"),
 "C08-m2": ("no fdatasync for an empty batch, and sync_failed taken from the batch result", "purge + flush whose fdatasync fails, then a retried flush with nothing new"),
 "C09-m1": ("a decode error in the first record of a chunk is treated as an unfinished chunk creation (truncate to 0)", "any damage inside the head State record of a chunk (newest or older)"),
 "C09-m2": ("cache-miss reads (read_record) skip checksum verification", "a byte changes while the store is open; entry in a closed chunk and not cached"),
 "C10-m1": ("an unfinished head record is truncated even when truncation is disabled", "truncate_incomplete_record=false and a cut inside the head record / zeros from offset 0"),
 "C10-m2": ("block-wise trailing-zero check compares a short last block with a full-size zero array", "zero tail of >=28 bytes whose length is not a multiple of 1024"),
 "C11-m1": ("the size limit counts bytes appended since the last open / re-open, not the file size", "size limit, restart with a non-empty newest chunk, writes past the limit"),
 "C11-m2": ("chunk file name loses a digit in the 10^9 group", "a chunk offset >= 100_000_000_000"),
 "C12-m1": ("State decode fills last from purged when last is None", "State record with last None and purged Some"),
 "C12-m2": ("TruncateAfter decode accepts any non-zero Option tag", "tag byte >= 2 (with a matching checksum for the accept path)"),
 "C13-m1": ("RaftLog::open loads / repairs chunks before taking the directory lock", "a directory that needs repair while somebody owns it"),
 "C13-m2": ("FileLock::drop unlinks the LOCK file after unlocking", "a reopen racing a drop (second opener holds the old inode), then a third opener"),
 "C14-m1": ("Drop waits for the worker for at most 1 s, then gives up", "requests still queued at drop and a worker that needs longer than 1 s"),
 "C14-m2": ("Drop waits for done_seq >= sent_seq; done_seq is stored before callbacks and RemoveChunks", "RemoveChunks batched with the last flush; new instance opened before the old unlink"),
 "C15-m1": ("insert() of an empty payload returns before the eviction pass", "empty payload, item limit binding, evictable entries resident"),
 "C15-m2": ("clear() no longer resets the byte counter", "truncate(0) on a never-purged log with non-empty payloads resident"),
 "C16-m1": ("read() clamps `to` to last+1 after the inverted-range guard", "read(from, _) with from >= last + 2 on a log that has held an entry"),
 "C16-m2": ("purge computes a closed chunk's last index as next_log_index(last) - 1", "oldest closed chunk closed while the log held no entry (votes only, or after truncate(0)), then a purge"),
 "C01-r2m1": ("purge removes every covered closed chunk (retain) instead of the covered prefix only", "truncate + lower-term re-append with a rotation between, a purge between the two closing indexes, flush, restart"),
 "C01-r2m2": ("purge fast path skips a purge that lies below the stored entries", "first append at a non-zero index leaving a hole of >= 2 indexes, a purge strictly inside the hole"),
 "C02-r2m1": ("purge picks obsolete chunks with a filter and removes a middle chunk", "non-monotonic closing indexes (truncate), purge, flush, clean restart"),
 "C02-r2m2": ("OffsetReader counts requested bytes instead of bytes read", "a short read during replay: read_buffer_size smaller than a chunk file on the reopening run"),
 "C03-r2m1": ("flush() sends RemoveChunks before the Write request", "purge obsoleting a closed chunk, power loss between the worker's unlink and its fdatasync"),
 "C03-r2m2": ("open() drops a newest chunk that holds only its head State record", "a PurgeUpto that fills its chunk, covering every closed chunk; restart before anything else is written"),
 "C04-r2m1": ("the batch is written with one write_vectored whose byte count is never checked", "a short write in the middle of a batch"),
 "C04-r2m2": ("the sync error is moved out for the first callback; later callbacks of the batch get Ok", ">= 2 callback-carrying flushes in one worker batch whose fdatasync fails"),
 "C05-r2m1": ("trailing-zero scan capped at 64 KiB", "a zero tail longer than 64 KiB at the end of the newest chunk"),
 "C05-r2m2": ("purge picks obsolete chunks with a filter instead of an oldest-first prefix", "non-monotonic closing indexes (truncate across a chunk boundary), purge, flush, restart"),
 "C07-r2m1": ("open() moves the eviction boundary whenever it replays a State record", "a State record (save_user_data) in the middle of the newest chunk, clean restart, tiny cache, eviction before the first flush"),
 "C07-r2m2": ("DumpRaftLogIter moves payloads out of the snapshot's cache copy", "iterating the same dump_data() snapshot twice"),
 "C08-r2m1": ("a failed chunk removal is retried later instead of stopping the worker", "an unlink failure for a chunk that is not the youngest of its removal list"),
 "C08-r2m2": ("RemoveChunks is handled at once while a write batch is being collected", "RemoveChunks picked up in the same queue sweep as the flush's Write, then a crash or sync failure of that batch"),
 "C10-r2m1": ("decode errors of State.user_data lose their ErrorKind (UnexpectedEof becomes InvalidData)", "torn last record is a State record cut inside its user_data bytes / option tag"),
 "C10-r2m2": ("a 0-byte newest chunk is no longer removed and re-created", "newest chunk file of length exactly 0, then an append (or another record + purge + restart)"),
 "C11-r2m1": ("purge picks obsolete chunks with a filter: a middle chunk is deleted", "truncate journalled in a later chunk, purge between the closing indexes, flush"),
 "C11-r2m2": ("the worker drops one queued write when a batch reaches its cap; queue grown to 4096", ">= 1025 write requests queued against a busy / parked worker"),
 "C13-r2m1": ("Drop waits at most 1 s for the worker, then releases the directory lock", "worker stalled > 1 s at drop with work queued, reopen before the queue drains"),
 "C13-r2m2": ("Dump takes a read-only lock that is no lock when the LOCK file is absent", "a directory without LOCK file when the Dump opens it, then another opener"),
 "C14-r2m1": ("removal batches of more than 4 paths are unlinked by a detached helper thread", "a purge obsoleting >= 5 chunks in one flush, ack, drop, immediate reopen"),
 "C14-r2m2": ("purged chunk files are unlinked newest-first (pop)", "an unlink error or a crash between two unlinks of one removal batch"),
 "C15-r2m1": ("the eviction pass is capped at 32 entries per insert", "one insert owing more than 32 evictions (many pinned entries, boundary jumps over all of them)"),
 "C15-r2m2": ("eviction deferred to the end of an append batch and skipped on its error path", "multi-entry batch with a refused tail under a binding limit with evictable entries resident"),
}

def main():
    log = open(sys.argv[1]).read() if len(sys.argv) > 1 else ""
    res = {}
    cur = None
    for line in log.splitlines():
        m = re.match(r"## (\S+)", line)
        if m:
            cur = m.group(1); res[cur] = []; continue
        m = re.match(r"(CAUGHT|MISSED|INCONCLUSIVE\S*)\s+(C\d+)\s*(.*)", line)
        if m and cur:
            res[cur].append({"check": m.group(2), "verdict": m.group(1), "detail": m.group(3)[:300]})
    for mid, (what, needs) in NEEDS.items():
        d = f"/verif/seeded/{mid}"
        if not os.path.isdir(d):
            continue
        demo = "demo_test.rs" if os.path.exists(f"{d}/demo_test.rs") else "demo.diff"
        meta = {
            "id": mid,
            "breaks_property": mid.split("-")[0],
            "change": what,
            "needs_to_manifest": needs,
            "written_by": "independent sub-agent given only the property text and a scratch worktree of /repo (nothing from /verif)",
            "files": {"patch": "patch.diff", "demonstration": demo, "author_notes": "README.md"},
            "confirmed": {
                "how": "/verif/tools_confirm_mutant.sh <scratch worktree> <this dir>: (A) demonstration passes on the unchanged tree, (B) demonstration fails with patch.diff applied, (C) `cargo test --workspace --no-fail-fast --offline` passes with patch.diff applied",
                "result": "A=pass B=fail C=pass",
            },
            "checks_run": {
                "how": "/verif/tools_try_mutant.sh patch.diff <ID>: git -C /repo apply; VERIF_SEED=5 ./check <ID> quick; git -C /repo checkout -- .",
                "results": res.get(mid, []),
            },
        }
        json.dump(meta, open(f"{d}/meta.json", "w"), indent=1)
    print("wrote", len(NEEDS), "meta files")

main()
