#!/usr/bin/env python3
"""Writes /verif/seeded/<id>/meta.json from the table below and a sweep log
(output of tools_try_mutant.sh per mutant: '## <id>' line followed by CAUGHT/MISSED lines)."""
import json, re, sys, os

NEEDS = {
 "C01-m1": ("TruncateAfter(None) no longer empties the log index map (only the cache is cleared)", "truncate(0) on a log that was never purged; then reads / a lower-term re-append"),
 "C01-m2": ("purge releases a removed chunk's payloads by log id (remove_upto) instead of by index", "truncate + lower-term re-append, a rotation before the truncate record, a purge reaching that chunk while lower-id higher-index entries are live in the open chunk; only under some chunk limits"),
 "C02-m1": ("reopen_last_closed pops the last chunk and then forgets it when it is already full under the (lowered) limits", "clean restart with lower chunk limits, then rotation + flush + append under cache pressure, read of a pre-restart entry"),
 "C02-m2": ("chunk heads are written with user_data None and replay carries user_data over from the previous chunk", "save_user_data, >=1 rotation, purge + flush deleting the chunk that holds the record, clean restart"),
 "C03-m1": ("flush() with nothing buffered is acknowledged on the caller thread", "callback-carrying flush while earlier writes are still queued at the worker, crash in that window"),
 "C03-m2": ("worker skips fdatasync when the batch carried no bytes", "a purge record that fills its chunk + empty flush + power loss (new chunk's head never synced), or a retry flush after a failed sync"),
 "C04-m1": ("a Write request with empty data is acknowledged immediately in the batch loop", "flush(data) and flush(nothing new) landing in one worker batch: second callback fires before the first sync / first callback"),
 "C04-m2": ("closed file dropped without sync when sync_id == next file's starting offset; sync_id set before the sync", "rotation with unflushed bytes whose tail fdatasync fails once; a later flush acks Ok"),
 "C05-m1": ("purged chunk files are unlinked newest-first", "one purge obsoleting >=2 closed chunks, crash between two unlinks, restart"),
 "C05-m2": ("an empty newest chunk is taken over in place (head State written at the old file position)", "crash leaving 1..49 bytes of a new chunk's head record, successful recovery, writes, one more restart"),
 "C06-m1": ("only the first entry of an append batch is validated before journalling", "multi-entry batch whose refused entry is not the first"),
 "C06-m2": ("append() runs the cache eviction pass before validating", "small cache, chunk roll-over, synced flush + worker idle, then a rejected append"),
 "C07-m1": ("the caller advances the eviction boundary when it closes a chunk under cache pressure", "tiny cache, worker at least one chunk behind, one more insert, read before the worker catches up"),
 "C07-m2": ("dump_data() shares the live payload cache instead of copying it", "snapshot held while the live store closes the chunk, flushes and evicts; then the snapshot is iterated"),
 "C08-m1": ("purge selects obsolete chunks with a filter instead of an oldest-first prefix", "non-monotonic closing indexes (truncate + re-append across chunks), then a purge"),
 "C08-m2": ("no fdatasync for an empty batch, and sync_failed taken from the batch result", "purge + flush whose fdatasync fails, then a retried flush with nothing new"),
 "C09-m1": ("a decode error in the first record of a chunk is treated as an unfinished chunk creation (truncate to 0)", "any damage inside the head State record of a chunk (newest or older)"),
 "C09-m2": ("cache-miss reads (read_record) skip checksum verification", "a byte changes while the store is open; entry in a closed chunk and not cached"),
 "C10-m1": ("an unfinished head record is truncated even when truncation is disabled", "truncate_incomplete_record=false and a cut inside the head record / zeros from offset 0"),
 "C10-m2": ("block-wise trailing-zero check compares a short last block with a full-size zero array", "zero tail of >=28 bytes whose length is not a multiple of 1024"),
 "C11-m1": ("the size limit counts bytes appended since the last open / re-open, not the file size", "size limit, restart with a non-empty newest chunk, writes past the limit"),
 "C11-m2": ("chunk file name loses a digit in the 10^9 group", "a chunk offset >= 100_000_000_000"),
 "C12-m1": ("State decode fills last from purged when last is None", "State record with last None and purged Some"),
 "C12-m2": ("TruncateAfter decode accepts any non-zero Option tag", "tag byte >= 2 (with a matching checksum for the accept path)"),
 "C13-m1": ("RaftLog::open loads / repairs chunks before taking the directory lock", "a directory that needs repair while somebody owns it"),
 "C13-m2": ("FileLock::drop unlinks the LOCK file after unlocking", "a reopen racing a drop (second opener holds the old inode), then a third opener"),
 "C14-m1": ("Drop waits for the worker for at most 1 s, then gives up", "requests still queued at drop and a worker that needs longer than 1 s"),
 "C14-m2": ("Drop waits for done_seq >= sent_seq; done_seq is stored before callbacks and RemoveChunks", "RemoveChunks batched with the last flush; new instance opened before the old unlink"),
 "C15-m1": ("insert() of an empty payload returns before the eviction pass", "empty payload, item limit binding, evictable entries resident"),
 "C15-m2": ("clear() no longer resets the byte counter", "truncate(0) on a never-purged log with non-empty payloads resident"),
 "C16-m1": ("read() clamps `to` to last+1 after the inverted-range guard", "read(from, _) with from >= last + 2 on a log that has held an entry"),
 "C16-m2": ("purge computes a closed chunk's last index as next_log_index(last) - 1", "oldest closed chunk closed while the log held no entry (votes only, or after truncate(0)), then a purge"),
 "C01-r2m1": ("purge removes every covered closed chunk (retain) instead of the covered prefix only", "truncate + lower-term re-append with a rotation between, a purge between the two closing indexes, flush, restart"),
 "C01-r2m2": ("purge fast path skips a purge that lies below the stored entries", "first append at a non-zero index leaving a hole of >= 2 indexes, a purge strictly inside the hole"),
 "C02-r2m1": ("purge picks obsolete chunks with a filter and removes a middle chunk", "non-monotonic closing indexes (truncate), purge, flush, clean restart"),
 "C02-r2m2": ("OffsetReader counts requested bytes instead of bytes read", "a short read during replay: read_buffer_size smaller than a chunk file on the reopening run"),
 "C03-r2m1": ("flush() sends RemoveChunks before the Write request", "purge obsoleting a closed chunk, power loss between the worker's unlink and its fdatasync"),
 "C03-r2m2": ("open() drops a newest chunk that holds only its head State record", "a PurgeUpto that fills its chunk, covering every closed chunk; restart before anything else is written"),
 "C04-r2m1": ("the batch is written with one write_vectored whose byte count is never checked", "a short write in the middle of a batch"),
 "C04-r2m2": ("the sync error is moved out for the first callback; later callbacks of the batch get Ok", ">= 2 callback-carrying flushes in one worker batch whose fdatasync fails"),
 "C05-r2m1": ("trailing-zero scan capped at 64 KiB", "a zero tail longer than 64 KiB at the end of the newest chunk"),
 "C05-r2m2": ("purge picks obsolete chunks with a filter instead of an oldest-first prefix", "non-monotonic closing indexes (truncate across a chunk boundary), purge, flush, restart"),
 "C07-r2m1": ("open() moves the eviction boundary whenever it replays a State record", "a State record (save_user_data) in the middle of the newest chunk, clean restart, tiny cache, eviction before the first flush"),
 "C07-r2m2": ("DumpRaftLogIter moves payloads out of the snapshot's cache copy", "iterating the same dump_data() snapshot twice"),
 "C08-r2m1": ("a failed chunk removal is retried later instead of stopping the worker", "an unlink failure for a chunk that is not the youngest of its removal list"),
 "C08-r2m2": ("RemoveChunks is handled at once while a write batch is being collected", "RemoveChunks picked up in the same queue sweep as the flush's Write, then a crash or sync failure of that batch"),
 "C10-r2m1": ("decode errors of State.user_data lose their ErrorKind (UnexpectedEof becomes InvalidData)", "torn last record is a State record cut inside its user_data bytes / option tag"),
 "C10-r2m2": ("a 0-byte newest chunk is no longer removed and re-created", "newest chunk file of length exactly 0, then an append (or another record + purge + restart)"),
 "C11-r2m1": ("purge picks obsolete chunks with a filter: a middle chunk is deleted", "truncate journalled in a later chunk, purge between the closing indexes, flush"),
 "C11-r2m2": ("the worker drops one queued write when a batch reaches its cap; queue grown to 4096", ">= 1025 write requests queued against a busy / parked worker"),
 "C13-r2m1": ("Drop waits at most 1 s for the worker, then releases the directory lock", "worker stalled > 1 s at drop with work queued, reopen before the queue drains"),
 "C13-r2m2": ("Dump takes a read-only lock that is no lock when the LOCK file is absent", "a directory without LOCK file when the Dump opens it, then another opener"),
 "C14-r2m1": ("removal batches of more than 4 paths are unlinked by a detached helper thread", "a purge obsoleting >= 5 chunks in one flush, ack, drop, immediate reopen"),
 "C14-r2m2": ("purged chunk files are unlinked newest-first (pop)", "an unlink error or a crash between two unlinks of one removal batch"),
 "C15-r2m1": ("the eviction pass is capped at 32 entries per insert", "one insert owing more than 32 evictions (many pinned entries, boundary jumps over all of them)"),
 "C15-r2m2": ("eviction deferred to the end of an append batch and skipped on its error path", "multi-entry batch with a refused tail under a binding limit with evictable entries resident"),

 # round 3
 "C01-r3m1": ("set_last_evictable only ever raises the eviction boundary", "truncate into a synced closed chunk, lower-term re-append, a second rotation + sync (boundary should drop), appends under a small cache, read before the open chunk closes"),
 "C01-r3m2": ("RaftLogState::purge decides by index whether to move `last` up to the purge id (off by one at equality)", "a purge exactly at the last stored index with a newer term"),
 "C02-r3m1": ("open() drops a newest chunk that holds only its head State record", "a purge up to last whose record fills the open chunk, all closed chunks removed, flush, clean restart with nothing else written"),
 "C02-r3m2": ("RaftLogWAL::new takes the maximum last log id over all closed chunks as the worker's first eviction boundary", "truncate + lower-term re-append across rotations, clean restart with a smaller cache, flush, append, read of the open chunk's pre-restart entries"),
 "C03-r3m1": ("open() at once sends RemoveChunks for closed chunks that the replayed purge makes obsolete", "purge record written but not synced, process crash, restart (unlinks), power loss that drops the unsynced record, reopen"),
 "C03-r3m2": ("the worker survives a failed write_all (reported like a failed sync) and keeps appending behind the hole / torn record", "a write error in one batch, later flushes acknowledged Ok, restart"),
 "C04-r3m1": ("try_close_full_chunk takes the buffered tail before creating the new chunk file; a failed creation drops it", "a rotation whose chunk-file creation fails once, later appends retry it, flush acknowledged Ok"),
 "C04-r3m2": ("FlushWorker::run re-enters run_inner after an I/O error instead of ending", "one write error in the worker, the condition clears, a later flush is acknowledged Ok"),
 "C05-r3m1": ("open() unlinks chunks covered by the purged id before the newest chunk is taken over as open chunk", "purge up to last + flush, restart, crash before that instance's first flush, restart"),
 "C05-r3m2": ("open() unlinks a non-newest chunk whose only record is its head State", "crash tearing the first record after a chunk head, then three restarts"),
 "C06-r3m1": ("a 'committed index must not move back' rule added only where the Commit record is applied, not where it is checked", "a commit id greater by (term, index) but lower in index than the committed one"),
 "C06-r3m2": ("check_vote and update_vote disagree on incomparable votes (journalled, then refused)", "a partially ordered Vote type and an incomparable vote (same term, other node)"),
 "C07-r3m1": ("the worker survives a failed write; later syncs move the eviction boundary over the damaged chunk", "write fault, the chunk closes, a later flush succeeds, a small cache evicts, read of an entry of the failed request"),
 "C07-r3m2": ("with no closed chunk the worker's first boundary falls back to the last log id known at open", "restart with exactly one chunk file holding entries, flush, appends under a small cache, read before that chunk closes"),
 "C08-r3m1": ("open() drops a newest chunk that holds only its head State record (records.len() <= 1)", "purge up to last filling its chunk, flush + idle (older chunks removed), close and reopen"),
 "C08-r3m2": ("new impl Drop for RaftLog hands the pending chunk removals to the worker without a flush", "a purge that makes closed chunks obsolete and is not followed by a flush, drop, reopen"),
 "C09-r3m1": ("the chunk adjacency check runs after the 'newest chunk has no complete record' branch", "newest chunk left record-less by a crash AND the chunk file before it missing"),
 "C09-r3m2": ("a record that fails its checksum is accepted as torn when everything from the next 4 KiB boundary to the end of the file is zero", "a tolerated zero tail reaching past the next 4 KiB boundary plus one altered byte in a complete record before it"),
 "C10-r3m1": ("handle_record_error: the 'truncation disabled' refusal only covers UnexpectedEof; a zero tail falls through to truncation", "truncate_incomplete_record=false and a zero tail of >= 28 bytes at a record boundary"),
 "C10-r3m2": ("Chunk::open refuses to cut a tail larger than chunk_max_size", "a torn / zero tail longer than the chunk_max_size in force for this open"),
 "C11-r3m1": ("sync_all_files uses swap_remove(0): with three tracked files the write target becomes a closed chunk", "a rotation, a second rotation whose sync fails, a flush whose sync succeeds, more writes + flush"),
 "C11-r3m2": ("rotation writes the closing chunk's buffered tail directly to the file, overtaking writes still queued at the worker", "an un-awaited flush still queued when a later write fills the chunk"),
 "C12-r3m1": ("WALRecord::decode reads the 4-byte type tag with a single read() call", "a reader that splits the tag across two reads (BufReader at a buffer boundary: read_buffer_size smaller than a chunk)"),
 "C12-r3m2": ("WALRecord::encode assembles records in a thread-local scratch buffer that is not cleared after a failed encode", "an encode that fails (writer full), then any other encode on that thread"),
 "C13-r3m1": ("a FileLock clone (dup) is handed to the FlushWorker; its drop unlocks the shared flock when the worker ends", "the worker ends on an I/O error while the store is alive; then a second opener"),
 "C13-r3m2": ("Dump releases its directory lock at the end of the first complete write_with", "a Dump that has dumped once and is kept alive; then another opener"),
 "C14-r3m1": ("the worker discards its queue when the WAL is dropped (shutdown flag)", "unflushed operations that rotate a chunk after the last acknowledgement, drop, reopen"),
 "C14-r3m2": ("new impl Drop for RaftLog sends pending chunk removals without the purge record", "everything acknowledged, then a purge passing the end of closed chunks without a flush, drop, reopen"),
 "C15-r3m1": ("evictability judged by log index instead of log id (stat still reports the log-id boundary)", "truncate below a synced boundary, lower-term re-append running past its index, a binding limit or idle + drain"),
 "C15-r3m2": ("truncation lowers a second, unreported eviction boundary (a fix of the known C07 defect that breaks C15 as stated)", "truncate into a synced chunk, re-appends at or below the stale boundary, binding limit or idle + drain"),
 "C16-r3m1": ("load_log_payload reads from the open chunk when the chunk is not among the closed ones (offset underflow for a dropped chunk)", "purge mid-log with a higher term, chunk closes, flush, second purge dropping the chunk while entries stay indexed, read"),
 "C16-r3m2": ("PayloadCache::insert does not add the size when the key is already cached", "the same log id appended twice via update_state rewinding last, second payload longer, then truncate / purge / evict"),
 # round 4
 "C02-r4m1": ("update_state() also drops index entries outside (purged, last] of the state it installs — live only, never journalled", "update_state with a lower last, flush, clean restart, read beyond the installed last"),
 "C02-r4m2": ("a rotated chunk is not registered as closed when last did not move while it was open", "a non-oldest chunk filled only with vote / commit / user-data records, later rotations, a purge past the following chunk, flush, clean restart"),
 "C03-r4m1": ("open() accepts a previous chunk that ends (on a record boundary) before the next chunk's offset and continues from the next head snapshot", "crash in the rotation window: next chunk file created, closing chunk's tail only queued"),
 "C03-r4m2": ("rotation writes the closing chunk's buffered tail directly to the file on the caller thread", "an earlier flush still queued at a busy worker when a later write fills the chunk; records whose swapped order still replays"),
 "C04-r4m1": ("send_request uses try_send: a full queue is reported as WouldBlock after the pending data was taken", "more than 1024 requests queued against a stalled worker, the refused flush retried"),
 "C04-r4m2": ("flush() fast path: nothing pending and worker idle => callback Ok at once, no request sent", "an fdatasync that failed once, worker idle, retry flush with nothing new"),
 "C05-r4m1": ("a new chunk is written as <chunk>.tmp and renamed into place; a left-over .tmp is never cleaned up and blocks the next creation at that offset", "a crash between the creation of the temporary file and its rename (rotation or recovery), then a chunk creation at the same offset"),
 "C05-r4m2": ("flush() sends RemoveChunks before the Write request", "purge obsoleting a closed chunk with its record still pending, flush, crash / fault between the unlink and the write"),
 "C07-r4m1": ("RaftLog::read() takes the cache lock with try_read(); a busy lock counts as a miss", "a read of a not-yet-evictable entry at the instant the worker holds (or queues for) the cache write lock"),
 "C07-r4m2": ("assert! in sync_all_files that the eviction boundary never moves backwards (fires on the worker, poisons the cache lock)", "a boundary published, a truncation below it, the chunk holding the truncation closes before any higher id is appended, a later flush, any read"),
 "C08-r4m1": ("the worker survives a failed write and the next successful sync releases the postponed chunk removals", "a purge obsoleting a closed chunk, a write fault on the batch carrying the purge record, one more successful flush"),
 "C08-r4m2": ("send_flush returns early when nothing is buffered and no callback is given; flush() still sends RemoveChunks", "the purge record fills and closes a fully purged chunk, then flush(None), power loss"),
 "C09-r4m1": ("open() drops fully purged chunks from its map (scheduling their files for removal) and derives the continuity check from that map", "a fully purged chunk still on disk at open, the chunk file right after it missing, at least one more chunk after that"),
 "C09-r4m2": ("verify_trailing_zeros sizes its buffer by read_buffer_size: with 0 the first read returns 0 and any tail counts as zeros", "restart with read_buffer_size = 0 and a checksum-type damage (flipped byte that keeps the record length)"),
 "C11-r4m1": ("try_close_full_chunk detaches the buffered tail before creating the next chunk file; a failed creation drops it", "unflushed records in a chunk that fills, the chunk-file creation failing once, a later write that rotates"),
 "C11-r4m2": ("on_disk_size takes the oldest start from the closed map and falls back to 0 when no closed chunk is left", "rotations, then a purge that retires every closed chunk (the open chunk starts above 0)"),
 "C13-r4m1": ("the worker's purged-chunk removal deletes every directory entry whose name sorts at or before the newest purged chunk — LOCK included", "a rotation, a purge obsoleting a closed chunk, a finished flush, then a second opener while the owner is alive"),
 "C13-r4m2": ("a dump_data() snapshot that holds closed chunks keeps a clone of the directory lock", "a multi-chunk store, dump_data(), the snapshot kept alive past the drop of the store, then a reopen"),
 "C14-r4m1": ("purge() schedules every closed chunk whose last index <= upto (filter) instead of the oldest-first prefix", "truncate spanning a rotation (non-monotonic closing indexes), purge between the two ends, flush, ack, drop, reopen"),
 "C14-r4m2": ("a failed write_all no longer ends the worker", "one worker write failing, the caller continuing with successful flushes, drop, reopen"),
 # round 5
 "C01-r5m1": ("RaftLogState::commit stores min(supplied log id, last)", "a commit whose log id is ahead of the local last log (or on an empty log)"),
 "C01-r5m2": ("PurgeUpto in the state machine clears the whole index when the purge id >= last by log id", "a purge id with a newer term than the last stored log but a smaller index, with entries above that index"),
 "C06-r5m1": ("records are encoded into a staging buffer that is not emptied when validation refuses the record", "a refused write, then an accepted write, flush, restart"),
 "C06-r5m2": ("truncate() drops cached payloads from the given index on before it resolves the kept log id", "a purged prefix, then a refused truncate(i) with 1 <= i <= purged.index"),
 "C10-r5m1": ("open() also drops a newest chunk that was truncated back to just its head State record", "all older chunks purged and removed, then a cut or zero tail right after the head record of the only chunk"),
 "C10-r5m2": ("verify_trailing_zeros compares a global offset with the file size and returns false instead of an error", "a newest chunk that does not start at offset 0 and a zero tail (>= 28 bytes) shorter than the chunk's global start"),
 "C12-r5m1": ("RaftLogState::decode accepts version 0 (a 'legacy' layout without user_data)", "a State record with version byte 0, a body one field shorter and a matching checksum"),
 "C12-r5m2": ("WALRecord::decode matches only the last byte of the 4-byte type tag", "non-zero upper tag bytes with a matching checksum"),
 "C15-r5m1": ("try_evict remembers that it stopped at a pinned entry and returns at once until the boundary is set again", "a binding limit, a pass that stopped at a pinned entry, a truncate into the synced chunk, re-appends at or below the stale boundary"),
 "C15-r5m2": ("truncate_after fast path empties the map without resetting the byte counter", "a synced and evicted prefix, pinned entries resident, a truncate to a point inside the evicted range"),
 "C16-r5m1": ("assert! in set_last_evictable that the boundary never moves backwards", "a chunk closed with a high-term last id, truncate, lower-term re-append, that chunk closed too, one more sync; then any cache-touching call or a restart"),
 "C16-r5m2": ("is_open_chunk_full computes chunk_max_records - records_count without saturating", "restart with chunk_max_records smaller than the number of records in the re-used newest chunk, then any write"),
}

def main():
    # logs: old format ('## <id>' then 'CAUGHT <ID> ...' lines) or the runners' format
    # ('<mutant-id> CAUGHT|MISSED|INCONCLUSIVE(n) <ID> detail'); several logs may be given, later wins
    res = {}
    for path in sys.argv[1:]:
        cur = None
        for line in open(path).read().splitlines():
            m = re.match(r"## (\S+)", line)
            if m:
                cur = m.group(1); continue
            m = re.match(r"(C\d+-\S+)\s+(CAUGHT|MISSED|INCONCLUSIVE\S*)\s+(C\d+)\s*(.*)", line)
            if m:
                mid, verdict, chk, detail = m.groups()
            else:
                m = re.match(r"(CAUGHT|MISSED|INCONCLUSIVE\S*)\s+(C\d+)\s*(.*)", line)
                if not (m and cur):
                    continue
                mid = cur; verdict, chk, detail = m.groups()
            res.setdefault(mid, {})[chk] = {"check": chk, "verdict": verdict, "detail": detail[:300]}
    n = 0
    for mid, (what, needs) in NEEDS.items():
        d = f"/verif/seeded/{mid}"
        if not os.path.isdir(d):
            continue
        demo = "demo_test.rs" if os.path.exists(f"{d}/demo_test.rs") else "demo.diff"
        # results already recorded stay unless a newer run of the same check is in the logs
        merged = {}
        if os.path.exists(f"{d}/meta.json"):
            try:
                for r in json.load(open(f"{d}/meta.json"))["checks_run"]["results"]:
                    merged[r["check"]] = r
            except Exception:
                pass
        merged.update(res.get(mid, {}))
        meta = {
            "id": mid,
            "breaks_property": mid.split("-")[0],
            "change": what,
            "needs_to_manifest": needs,
            "written_by": "independent sub-agent given only the property text and a scratch worktree of /repo (nothing from /verif)",
            "files": {"patch": "patch.diff", "demonstration": demo, "author_notes": "README.md"},
            "confirmed": {
                "how": "/verif/tools_confirm_mutant.sh <scratch worktree> <this dir>: (A) demonstration passes on the unchanged tree, (B) demonstration fails with patch.diff applied, (C) `cargo test --workspace --no-fail-fast --offline` passes with patch.diff applied",
                "result": "A=pass B=fail C=pass",
            },
            "checks_run": {
                "how": "tools_try_mutant.sh (git -C /repo apply; ./check <ID> quick; git -C /repo checkout -- .) or tools_par_mutants.sh (the same on a scratch worktree of /repo with the change applied and a copy of /verif pointing at it); VERIF_SEED=5; the latest run per check is kept",
                "results": [merged[k] for k in sorted(merged)],
            },
        }
        json.dump(meta, open(f"{d}/meta.json", "w"), indent=1)
        n += 1
    print("wrote", n, "meta files")

main()
