#!/usr/bin/env python3
"""Writes /verif/seeded/<id>/meta.json from the table below and a sweep log
(output of tools_try_mutant.sh per mutant: '## <id>' line followed by CAUGHT/MISSED lines)."""
import json, re, sys, os

NEEDS = {
 "C01-m1": ("TruncateAfter(None) no longer empties the log index map (only the cache is cleared)", "truncate(0) on a log that was never purged; then reads / a lower-term re-append"),
 "C01-m2": ("purge releases a removed chunk's payloads by log id (remove_upto) instead of by index", "truncate + lower-term re-append, a rotation before the truncate record, a purge reaching that chunk while lower-id higher-index entries are live in the open chunk; only under some chunk limits"),
 "C02-m1": ("reopen_last_closed pops the last chunk and then forgets it when it is already full under the (lowered) limits", "clean restart with lower chunk limits, then rotation + flush + append under cache pressure, read of a pre-restart entry"),
 "C02-m2": ("chunk heads are written with user_data None and replay carries user_data over from the previous chunk", "save_user_data, >=1 rotation, purge + flush deleting the chunk that holds the record, clean restart"),
 "C03-m1": ("flush() with nothing buffered is acknowledged on the caller thread", "callback-carrying flush while earlier writes are still queued at the worker, crash in that window"),
 "C03-m2": ("worker skips fdatasync when the batch carried no bytes", "a purge record that fills its chunk + empty flush + power loss (new chunk's head never synced), or a retry flush after a failed sync"),
 "C04-m1": ("a Write request with empty data is acknowledged immediately in the batch loop", "flush(data) and flush(nothing new) landing in one worker batch: second callback fires before the first sync / first callback"),
 "C04-m2": ("closed file dropped without sync when sync_id == next file's starting offset; sync_id set before the sync", "rotation with unflushed bytes whose tail fdatasync fails once; a later flush acks Ok"),
 "C05-m1": ("purged chunk files are unlinked newest-first", "one purge obsoleting >=2 closed chunks, crash between two unlinks, restart"),
 "C05-m2": ("an empty newest chunk is taken over in place (head State written at the old file position)", "crash leaving 1..49 bytes of a new chunk's head record, successful recovery, writes, one more restart"),
 "C06-m1": ("only the first entry of an append batch is validated before journalling", "multi-entry batch whose refused entry is not the first"),
 "C06-m2": ("append() runs the cache eviction pass before validating", "small cache, chunk roll-over, synced flush + worker idle, then a rejected append"),
 "C07-m1": ("the caller advances the eviction boundary when it closes a chunk under cache pressure", "tiny cache, worker at least one chunk behind, one more insert, read before the worker catches up"),
 "C07-m2": ("dump_data() shares the live payload cache instead of copying it", "snapshot held while the live store closes the chunk, flushes and evicts; then the snapshot is iterated"),
 "C08-m1": ("purge selects obsolete chunks with a filter instead of an oldest-first prefix", "non-monotonic closing indexes (truncate + re-append across chunks), then a purge"),
 "C08-m2": ("no fdatasync for an empty batch, and sync_failed taken from the batch result", "purge + flush whose fdatasync fails, then a retried flush with nothing new"),
 "C09-m1": ("a decode error in the first record of a chunk is treated as an unfinished chunk creation (truncate to 0)", "any damage inside the head State record of a chunk (newest or older)"),
 "C09-m2": ("cache-miss reads (read_record) skip checksum verification", "a byte changes while the store is open; entry in a closed chunk and not cached"),
 "C10-m1": ("an unfinished head record is truncated even when truncation is disabled", "truncate_incomplete_record=false and a cut inside the head record / zeros from offset 0"),
 "C10-m2": ("block-wise trailing-zero check compares a short last block with a full-size zero array", "zero tail of >=28 bytes whose length is not a multiple of 1024"),
 "C11-m1": ("the size limit counts bytes appended since the last open / re-open, not the file size", "size limit, restart with a non-empty newest chunk, writes past the limit"),
 "C11-m2": ("chunk file name loses a digit in the 10^9 group", "a chunk offset >= 100_000_000_000"),
 "C12-m1": ("State decode fills last from purged when last is None", "State record with last None and purged Some"),
 "C12-m2": ("TruncateAfter decode accepts any non-zero Option tag", "tag byte >= 2 (with a matching checksum for the accept path)"),
 "C13-m1": ("RaftLog::open loads / repairs chunks before taking the directory lock", "a directory that needs repair while somebody owns it"),
 "C13-m2": ("FileLock::drop unlinks the LOCK file after unlocking", "a reopen racing a drop (second opener holds the old inode), then a third opener"),
 "C14-m1": ("Drop waits for the worker for at most 1 s, then gives up", "requests still queued at drop and a worker that needs longer than 1 s"),
 "C14-m2": ("Drop waits for done_seq >= sent_seq; done_seq is stored before callbacks and RemoveChunks", "RemoveChunks batched with the last flush; new instance opened before the old unlink"),
 "C15-m1": ("insert() of an empty payload returns before the eviction pass", "empty payload, item limit binding, evictable entries resident"),
 "C15-m2": ("clear() no longer resets the byte counter", "truncate(0) on a never-purged log with non-empty payloads resident"),
 "C16-m1": ("read() clamps `to` to last+1 after the inverted-range guard", "read(from, _) with from >= last + 2 on a log that has held an entry"),
 "C16-m2": ("purge computes a closed chunk's last index as next_log_index(last) - 1", "oldest closed chunk closed while the log held no entry (votes only, or after truncate(0)), then a purge"),
}

def main():
    log = open(sys.argv[1]).read() if len(sys.argv) > 1 else ""
    res = {}
    cur = None
    for line in log.splitlines():
        m = re.match(r"## (\S+)", line)
        if m:
            cur = m.group(1); res[cur] = []; continue
        m = re.match(r"(CAUGHT|MISSED|INCONCLUSIVE\S*)\s+(C\d+)\s*(.*)", line)
        if m and cur:
            res[cur].append({"check": m.group(2), "verdict": m.group(1), "detail": m.group(3)[:300]})
    for mid, (what, needs) in NEEDS.items():
        d = f"/verif/seeded/{mid}"
        if not os.path.isdir(d):
            continue
        demo = "demo_test.rs" if os.path.exists(f"{d}/demo_test.rs") else "demo.diff"
        meta = {
            "id": mid,
            "breaks_property": mid.split("-")[0],
            "change": what,
            "needs_to_manifest": needs,
            "written_by": "independent sub-agent given only the property text and a scratch worktree of /repo (nothing from /verif)",
            "files": {"patch": "patch.diff", "demonstration": demo, "author_notes": "README.md"},
            "confirmed": {
                "how": "/verif/tools_confirm_mutant.sh <scratch worktree> <this dir>: (A) demonstration passes on the unchanged tree, (B) demonstration fails with patch.diff applied, (C) `cargo test --workspace --no-fail-fast --offline` passes with patch.diff applied",
                "result": "A=pass B=fail C=pass",
            },
            "checks_run": {
                "how": "/verif/tools_try_mutant.sh patch.diff <ID>: git -C /repo apply; VERIF_SEED=5 ./check <ID> quick; git -C /repo checkout -- .",
                "results": res.get(mid, []),
            },
        }
        json.dump(meta, open(f"{d}/meta.json", "w"), indent=1)
    print("wrote", len(NEEDS), "meta files")

main()
