#!/usr/bin/env python3
"""Prints the DESIGN.md §10 table rows (id | change | needs | caught by) for the seeded changes whose
id contains the given round tag (e.g. -r3m, -r4m), from /verif/seeded/*/meta.json."""
import json, glob, os, re, sys
tag = sys.argv[1]
rows = []
for m in sorted(glob.glob('/verif/seeded/*/meta.json')):
    j = json.load(open(m))
    if tag not in j['id']:
        continue
    own = j['breaks_property']
    caught = []
    missed = []
    for r in j['checks_run']['results']:
        if r['verdict'] == 'CAUGHT':
            k = re.search(r'key=(\S+)', r['detail'])
            caught.append((r['check'], k.group(1) if k else '?'))
        elif r['verdict'] == 'MISSED':
            missed.append(r['check'])
    caught.sort(key=lambda x: (x[0] != own, x[0]))
    txt = '; '.join(f"{c}: `{k}`" for c, k in caught) if caught else '**not caught**'
    if caught and caught[0][0] != own:
        txt += f" (not by {own})"
    rows.append(f"| {j['id']} | {j['change']} | {j['needs_to_manifest']} | {txt} |")
print('\n'.join(rows))
