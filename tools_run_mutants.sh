#!/bin/bash
# tools_run_mutants.sh <logfile> <mutant-id>:<ID>[,<ID>...] ... — run the quick checks of the listed
# properties against each seeded change (sequentially; /repo is changed and restored each time).
LOG="$1"; shift
for spec in "$@"; do
  m=${spec%%:*}; ids=${spec##*:}
  for id in ${ids//,/ }; do
    r=$(SAVE_CORPUS=${SAVE_CORPUS:+$m} /verif/tools_try_mutant.sh /verif/seeded/$m/patch.diff $id 2>&1 | tail -1 | cut -c1-400)
    echo "$m $r" >> "$LOG"
  done
done
echo ALLDONE >> "$LOG"
